package main

// Byte-class sweep: every one of the 256 byte values at the role positions of the small grammars the loader compiles
// itself (extractHead/extractTail patterns, string templates, the orchestration tag). Bytes that YAML text cannot carry
// (>= 0xF5, lone continuation bytes, NUL, ...) are written as explicit !!binary scalars, so every position gets every
// byte. Oracle as everywhere: the loader answers; what it accepts instantiates and processes the record menu.

import (
	"encoding/base64"
	"fmt"
)

type sweepPosition struct {
	name        string
	quick       bool
	orchestrate bool
	build       func(b string) string // b: the byte as a one-byte string
}

func bin(raw string) string { return "!!binary " + base64.StdEncoding.EncodeToString([]byte(raw)) }

func extractWith(kind, key, pattern string) string {
	return skeleton(parts{transforms: "- type: " + kind + "\n  key: " + key + "\n  pattern: " + bin(pattern) + "\n  maxLen: 20\n  destKey: class\n"})
}

func addFieldsWith(template string) string {
	return skeleton(parts{transforms: "- type: addFields\n  fields:\n    class: " + bin(template) + "\n"})
}

var sweepPositions = []sweepPosition{
	{"extractHead/range-end", true, false, func(b string) string { return extractWith("extractHead", "log", "P[A-"+b+"] ") }},
	{"extractHead/range-start", true, false, func(b string) string { return extractWith("extractHead", "log", "P["+b+"-z] ") }},
	{"extractHead/boundaries", true, false, func(b string) string { return extractWith("extractHead", "log", b+"*"+b) }},
	{"extractTail/range-end", true, false, func(b string) string { return extractWith("extractTail", "source", ":[0-"+b+"]") }},
	{"template/variable", true, false, func(b string) string { return addFieldsWith("$" + b) }},
	{"template/braced", true, false, func(b string) string { return addFieldsWith("${task" + b + "}") }},
	{"tag/behind-variable", true, true, func(b string) string {
		return skeleton(parts{orchestration: "type: byKeySet\nkeys: [app]\ntag: " + bin("t.$app"+b) + "\n"})
	}},
	{"extractHead/listed", false, false, func(b string) string { return extractWith("extractHead", "log", "P[a"+b+"z] ") }},
	{"extractHead/escaped", false, false, func(b string) string { return extractWith("extractHead", "log", "\\"+b+"*] ") }},
	{"extractTail/range-start", false, false, func(b string) string { return extractWith("extractTail", "source", ":["+b+"-f]") }},
	{"template/literal", false, false, func(b string) string { return addFieldsWith("a" + b + "$app") }},
	{"template/slice-bound", false, false, func(b string) string { return addFieldsWith("${task[" + b + ":]}") }},
	{"truncate/suffix", false, false, func(b string) string {
		return skeleton(parts{transforms: "- type: truncate\n  key: log\n  maxLen: 5\n  suffix: " + bin(b) + "\n"})
	}},
	{"replace/replacement", false, false, func(b string) string {
		return skeleton(parts{transforms: "- type: replace\n  key: log\n  pattern: (P(OS|U)T)\\s\n  replacement: " + bin("${1}"+b) + "\n"})
	}},
	{"drop/metricLabel", false, true, func(b string) string {
		return skeleton(parts{transforms: "- type: drop\n  match:\n    level: info\n  percentage: 50\n  metricLabel: " + bin("l"+b) + "\n"})
	}},
}

func enumerateSweep(thorough bool, want func(id string) bool, emit func(id, text string, orchestrate bool)) {
	for _, pos := range sweepPositions {
		if !thorough && !pos.quick {
			continue
		}
		for b := 0; b < 256; b++ {
			id := fmt.Sprintf("sweep/%s/0x%02x", pos.name, b)
			text := ""
			if want(id) {
				text = pos.build(string([]byte{byte(b)}))
			}
			emit(id, text, pos.orchestrate)
		}
	}
}
