package main

// Base configuration files: the sample configuration of the repository plus one minimal file per transform,
// rewriter chain, matcher operator, orchestrator and output type. The minimal files are derived from
// testdata/config_sample.yml and from the YAML fragments in the *_test.go files of transform/, rewrite/, output/ and
// orchestrate/. Every base must be accepted and instantiate (checked as case "base/<name>").

import (
	"fmt"
	"os"
	"strings"
)

const sampleConfigPath = "/repo/testdata/config_sample.yml"

type baseFile struct {
	name   string
	family string   // group prefix
	text   string   // YAML
	focus  []string // path prefixes (key/[index] joined by "/") inside which sites are enumerated; empty = everywhere
	skip   []string // path prefixes never mutated
}

func indent(text string, n int) string {
	pad := strings.Repeat(" ", n)
	lines := strings.Split(strings.Trim(text, "\n"), "\n")
	for i, l := range lines {
		if l != "" {
			lines[i] = pad + l
		}
	}
	return strings.Join(lines, "\n")
}

const defaultExtraction = `
- type: extractTail
  key: app
  pattern: /*
  maxLen: 100
  destKey: vhost
`

const defaultOrchestration = `
type: singleton
tag: development.mini
`

const defaultTransform = `
- type: delFields
  keys: [extradata]
`

const defaultOutput = `
type: datadog
serialization:
  hiddenFields: [pid]
upstream:
  address: https://localhost:1/api/v2/logs
  httpTimeout: 30s
`

type parts struct {
	extractions   string
	orchestration string
	metricKeys    string
	transforms    string
	output        string
	moreOutputs   []string // further outputs ("out1", "out2", ...) behind the first one ("mini")
}

// skeleton renders a complete minimal configuration around the given parts (empty part = default).
func skeleton(p parts) string {
	if p.extractions == "" {
		p.extractions = defaultExtraction
	}
	if p.orchestration == "" {
		p.orchestration = defaultOrchestration
	}
	if p.metricKeys == "" {
		p.metricKeys = "[host]"
	}
	if p.transforms == "" {
		p.transforms = defaultTransform
	}
	if p.output == "" {
		p.output = defaultOutput
	}
	return `schema:
  fields: [facility, level, time, host, app, pid, source, extradata, log, class, task, vhost]
  maxFields: 16
inputs:
  - type: syslog
    address: localhost:5140
    levelMapping: [off, fatal, crit, error, warn, notice, info, debug]
    extractions:
` + indent(p.extractions, 6) + `
orchestration:
` + indent(p.orchestration, 2) + `
metricKeys: ` + p.metricKeys + `
transformations:
` + indent(p.transforms, 2) + `
outputBufferPairs:
  - name: mini
    buffer:
      type: hybridBuffer
      rootPath: /tmp/slog-buffer-mini
      maxBufSize: 1MB
    output:
` + indent(p.output, 6) + `
` + moreOutputs(p.moreOutputs)
}

func moreOutputs(outputs []string) string {
	text := ""
	for i, o := range outputs {
		text += fmt.Sprintf(`  - name: out%d
    buffer:
      type: hybridBuffer
      rootPath: /tmp/slog-buffer-mini-%d
      maxBufSize: 1MB
    output:
`, i+1, i+1) + indent(o, 6) + "\n"
	}
	return text
}

var transformSnippets = []struct{ name, yaml string }{
	{"addFields", `
- type: addFields
  fields:
    class: $app-${task[1:3]}
    vhost: fixed
`},
	{"block", `
- type: block
  steps:
    - type: delFields
      keys: [class]
`},
	{"delFields", `
- type: delFields
  keys: [class, task]
`},
	{"drop", `
- type: drop
  match:
    level: debug
  percentage: 50
  metricLabel: dropped
`},
	{"extract", `
- type: extract
  key: source
  pattern: ^(?P<class>[^:]+):(?P<task>.*)$
`},
	{"extractHead", `
- type: extractHead
  key: log
  pattern: '\[*\] - '
  maxLen: 100
  destKey: class
`},
	{"extractHead-chars", `
- type: extractHead
  key: log
  pattern: 'P[A-Z] '
  maxLen: 20
  destKey: class
`},
	{"extractTail", `
- type: extractTail
  key: source
  pattern: :[0-9a-f-]
  maxLen: 41
  destKey: task
`},
	{"if", `
- type: if
  match:
    class: !!str-any
  then:
    - type: addFields
      fields:
        task: $class
`},
	{"mapValue", `
- type: mapValue
  key: level
  mapping:
    info: INFO
    warn: WARN
  default: OTHER
`},
	{"parseTime", `
- type: parseTime
  key: time
  errorLabel: timeError
`},
	{"redactEmail", `
- type: redactEmail
  key: log
  metricLabel: redacted
`},
	{"replace", `
- type: replace
  key: log
  pattern: (P(OS|U)T)\s
  replacement: ${1}_
`},
	{"switch", `
- type: switch
  cases:
    - match:
        app: someapp
      then:
        - type: delFields
          keys: [class]
    - match:
        level: !!str-not info
      then:
        - type: unescape
          key: log
`},
	{"truncate", `
- type: truncate
  key: log
  maxLen: 20
  suffix: ' ... (cut)'
`},
	{"unescape", `
- type: unescape
  key: log
`},
}

var matcherSnippets = []struct{ name, expr string }{
	{"str", "!!str appServ"},
	{"str-default", "appServ"},
	{"str-any", "!!str-any"},
	{"str-eq", "!!str-eq appServ"},
	{"str-not", "!!str-not appServ"},
	{"str-start", "!!str-start app"},
	{"str-end", "!!str-end Serv"},
	{"str-contain", "!!str-contain pSe"},
	{"glob", "!!glob app{Serv,Other}*"},
	{"regex", `!!regex ^app(Serv|Other)\d*$`},
	{"len-gt", "!!len-gt 3"},
	{"len-lt", "!!len-lt 30"},
}

var rewriterSnippets = []struct{ name, yaml string }{
	{"inline-copy", `
log:
  - type: inline
    field: class
  - type: copy
`},
	{"inline-unescape", `
log:
  - type: inline
    field: class
  - type: unescape
`},
	{"copy", `
log:
  - type: copy
`},
	{"unescape", `
log:
  - type: unescape
`},
}

func fluentdOutput(mode string, rewrite string) string {
	out := `
type: fluentdForward
serialization:
  environmentFields: [host, app]
  hiddenFields: [pid, task]
`
	if rewrite != "" {
		out += "  rewriteFields:\n" + indent(rewrite, 4) + "\n"
	}
	out += `messageMode: ` + mode + `
upstream:
  address: localhost:24224
  tls: false
  secret: guess
  maxDuration: 30m
`
	return out
}

func allBases() ([]baseFile, error) {
	sample, err := os.ReadFile(sampleConfigPath)
	if err != nil {
		return nil, err
	}
	bases := []baseFile{
		{name: "sample", family: "sample", text: string(sample), skip: []string{"anchors/"}},
		{name: "mini-schema", family: "schema", text: skeleton(parts{}), focus: []string{"schema"}},
		{name: "mini-input", family: "input", text: skeleton(parts{}), focus: []string{"inputs"}},
	}
	for _, t := range transformSnippets {
		bases = append(bases, baseFile{
			name: "t-" + t.name, family: "transform", text: skeleton(parts{transforms: t.yaml}), focus: []string{"transformations"},
		})
	}
	// the same transform types at the extraction position are covered by the sample file; one mini file keeps the
	// regular-expression extractor there too (it is not used by the sample)
	bases = append(bases, baseFile{
		name: "x-extract", family: "transform", text: skeleton(parts{extractions: transformSnippets[4].yaml}), focus: []string{"inputs/[0]/extractions"},
	})
	for _, m := range matcherSnippets {
		tf := "- type: if\n  match:\n    app: " + m.expr + "\n  then:\n    - type: delFields\n      keys: [class]\n"
		bases = append(bases, baseFile{
			name: "m-" + m.name, family: "matcher", text: skeleton(parts{transforms: tf}), focus: []string{"transformations/[0]/match"},
		})
	}
	for _, r := range rewriterSnippets {
		bases = append(bases, baseFile{
			name: "r-" + r.name, family: "rewriter", text: skeleton(parts{output: fluentdOutput("CompressedPackedForward", r.yaml)}),
			focus: []string{"outputBufferPairs/[0]/output/serialization/rewriteFields"},
		})
	}
	bases = append(bases,
		baseFile{name: "o-singleton", family: "orchestrator", text: skeleton(parts{}), focus: []string{"orchestration", "metricKeys"}},
		baseFile{name: "o-byKeySet", family: "orchestrator", text: skeleton(parts{
			orchestration: "type: byKeySet\nkeys: [app, level]\ntag: development.$app.${level[:4]}\n", metricKeys: "[host, vhost]",
		}), focus: []string{"orchestration", "metricKeys"}},
	)
	for _, mode := range []string{"Forward", "PackedForward", "CompressedPackedForward"} {
		bases = append(bases, baseFile{
			name: "out-fluentd-" + mode, family: "output", text: skeleton(parts{output: fluentdOutput(mode, "")}), focus: []string{"outputBufferPairs"},
		})
	}
	bases = append(bases, baseFile{name: "out-datadog", family: "output", text: skeleton(parts{}), focus: []string{"outputBufferPairs"}})
	return bases, nil
}
