package main

// Sites and kinds: walking the YAML node tree of a base file and producing every single-site mutant.

import (
	"bytes"
	"fmt"
	"regexp"
	"strings"

	"gopkg.in/yaml.v3"
)

func parseYAML(text string) (*yaml.Node, error) {
	var doc yaml.Node
	if err := yaml.Unmarshal([]byte(text), &doc); err != nil {
		return nil, err
	}
	if doc.Kind != yaml.DocumentNode || len(doc.Content) != 1 {
		return nil, fmt.Errorf("not a single document")
	}
	stripComments(&doc)
	return &doc, nil
}

func stripComments(n *yaml.Node) {
	n.HeadComment, n.LineComment, n.FootComment = "", "", ""
	for _, c := range n.Content {
		stripComments(c)
	}
}

func renderYAML(doc *yaml.Node) (string, error) {
	var buf bytes.Buffer
	enc := yaml.NewEncoder(&buf)
	enc.SetIndent(2)
	if err := enc.Encode(doc); err != nil {
		return "", err
	}
	if err := enc.Close(); err != nil {
		return "", err
	}
	return buf.String(), nil
}

func cloneNode(n *yaml.Node) *yaml.Node {
	if n == nil {
		return nil
	}
	c := *n
	c.Alias = nil // base files use no aliases
	c.Content = make([]*yaml.Node, len(n.Content))
	for i, ch := range n.Content {
		c.Content[i] = cloneNode(ch)
	}
	return &c
}

// ---- node constructors

func plain(v string) *yaml.Node { return &yaml.Node{Kind: yaml.ScalarNode, Value: v} }
func str(v string) *yaml.Node   { return &yaml.Node{Kind: yaml.ScalarNode, Tag: "!!str", Value: v} }
func null() *yaml.Node          { return &yaml.Node{Kind: yaml.ScalarNode, Tag: "!!null", Value: ""} }
func seqOf(e ...*yaml.Node) *yaml.Node {
	return &yaml.Node{Kind: yaml.SequenceNode, Tag: "!!seq", Content: e}
}
func mapOf(kv ...*yaml.Node) *yaml.Node {
	return &yaml.Node{Kind: yaml.MappingNode, Tag: "!!map", Content: kv}
}
func flowSeq(e ...*yaml.Node) *yaml.Node {
	n := seqOf(e...)
	n.Style = yaml.FlowStyle
	return n
}
func flowMap(kv ...*yaml.Node) *yaml.Node {
	n := mapOf(kv...)
	n.Style = yaml.FlowStyle
	return n
}

func binaryNode(base64Text string) *yaml.Node {
	return &yaml.Node{Kind: yaml.ScalarNode, Tag: "!!binary", Value: base64Text}
}

func isNull(n *yaml.Node) bool {
	return n == nil || (n.Kind == yaml.ScalarNode && n.ShortTag() == "!!null")
}

func customTag(n *yaml.Node) string {
	if n.Kind != yaml.ScalarNode || n.Tag == "" {
		return ""
	}
	switch n.ShortTag() {
	case "!!str", "!!int", "!!float", "!!bool", "!!null", "!!timestamp", "!!binary", "!!merge":
		// "!!str" written explicitly in a match expression is a matcher tag too, but it is also the default
		if n.Style&yaml.TaggedStyle != 0 && n.ShortTag() == "!!str" {
			return "!!str"
		}
		return ""
	}
	return n.Tag
}

// ---- mutation description

type mutant struct {
	id     string // unique within the base: "<K|V|E>:<path>|<kind>"
	family string // kind family (group)
	leaf   string // role of the site (last key name; "<name>.key"/"<name>.value" inside user-keyed maps; "name[]" for elements)
	doc    *yaml.Node
}

// userKeyed: mappings whose keys are chosen by the user and name schema fields (or values to map)
var userKeyed = map[string]bool{"match": true, "fields": true, "rewriteFields": true, "mapping": true}

var matcherTags = []string{"!!str", "!!str-any", "!!str-eq", "!!str-not", "!!str-start", "!!str-end", "!!str-contain", "!!glob", "!!regex", "!!len-gt", "!!len-lt", "!!zzUnknown", "!!int", "!!binary"}

var templateVar = regexp.MustCompile(`\$\{?(\w+)`)

type scalarKind struct {
	name, family, value string
	node                func() *yaml.Node // when not a plain scalar
}

func scalarKinds(orig *yaml.Node) []scalarKind {
	kinds := []scalarKind{
		{name: "unknown-name", family: "scalar:generic", value: "zzUnknown"},
		{name: "empty", family: "scalar:generic", node: func() *yaml.Node { return str("") }},
		{name: "null", family: "scalar:generic", node: null},
		{name: "to-mapping", family: "scalar:generic", node: func() *yaml.Node { return flowMap(plain("zzUnknown"), plain("zzUnknown")) }},
		{name: "to-sequence", family: "scalar:generic", node: func() *yaml.Node { return flowSeq(plain("zzUnknown")) }},
		{name: "blank", family: "scalar:generic", node: func() *yaml.Node { return str(" ") }},
	}
	for _, v := range []string{"0", "-1", "1", "101", "2147483648", "9223372036854775807", "-9223372036854775808", "99999999999999999999", "-99999999999999999999", "1.5", "0x7fffffffffffffff", "true"} {
		kinds = append(kinds, scalarKind{name: "num:" + v, family: "scalar:number", value: v})
	}
	names := []string{"task", "a"}
	if m := templateVar.FindStringSubmatch(orig.Value); m != nil && m[1] != "task" && m[1] != "a" {
		names = append(names, m[1])
	}
	tmpl := []string{"$$", "${a[", "$", "${}", "$zzUnknown", "${zzUnknown}", "${zzUnknown[1:]}"}
	for _, n := range names {
		tmpl = append(tmpl,
			"${"+n+"[99999999999999999999:]}", "${"+n+"[-99999999999999999999:]}",
			"${"+n+"[:99999999999999999999]}", "${"+n+"[:-99999999999999999999]}",
			"${"+n+"[9999999999:]}", "${"+n+"[:-9999999999]}", "${"+n+"[-9999999999:9999999999]}",
			"${"+n+"[3:1]}", "${"+n+"[:]}", "${"+n+"[1]}", "${"+n+"[a:b]}", "${"+n, "$"+n+"$"+n, "x$"+n+"${"+n+"[-1:]}y",
		)
	}
	for _, v := range tmpl {
		kinds = append(kinds, scalarKind{name: "tmpl:" + v, family: "scalar:template", value: v})
	}
	for _, v := range []string{"(", ")", "[", "]", "(?P<zzUnknown>.)", "(?P<class>.)(?P<zzUnknown>.)", "(?P<>x)", "abc*", "*", "*abc", "abc*def", "[]", "[]x", "x[]", "[a--z]x", "[z-a]", "[a-", "[^]", "\\", "a\\", "**", "a*b*c", "a[b", "a[b]c[d]", "[a]*", "{", "{a,b", "[!", "\\[*\\]", "\\*", "(?i)x{1001}", "x{2,1}", "\\p{Zz}"} {
		kinds = append(kinds, scalarKind{name: "pat:" + v, family: "scalar:pattern", value: v})
	}
	for _, v := range []string{"10XB", "-1GB", "99999999999999999999GB", "0GB", "1.5GB", "GB", "16EB", "30x", "-30s", "9999999999h", "0s", "30", "1h1", ":", "%zz", "localhost", "localhost:99999", "localhost:-1", "http://[::1", ":0", "[::1]:0", "a:b:c"} {
		kinds = append(kinds, scalarKind{name: "unit:" + v, family: "scalar:size-duration-address", value: v})
	}
	// explicit !!binary scalars: the only way to write bytes >= 0xF5 and invalid UTF-8 in general into a name, pattern,
	// template, label or tag (base64 of: 0xFF; "[a-\xff]"; 0x80 0x80 0x80)
	for _, v := range []string{"/w==", "W2Et/10=", "gICA"} {
		v := v
		kinds = append(kinds, scalarKind{name: "bin:" + v, family: "scalar:binary", node: func() *yaml.Node { return binaryNode(v) }})
	}
	return kinds
}

// applicable says whether a scalar kind family is enumerated at a leaf role in the quick tier (thorough: everything
// everywhere). At a leaf that is an enumeration (type, messageMode) or a free list of strings every string kind is the
// same "unknown name"; at a leaf that names a schema field the pattern and unit kinds are again just unknown names.
func applicable(leaf, family string) bool {
	if !strings.HasPrefix(family, "scalar:") {
		return true
	}
	switch leaf {
	case "type", "messageMode", "hiddenFields[]", "levelMapping[]", "tls":
		return family == "scalar:generic"
	case "key", "destKey", "field", "fields[]", "keys[]", "metricKeys[]", "environmentFields[]":
		return family == "scalar:generic" || family == "scalar:template" || family == "scalar:number" || family == "scalar:binary"
	}
	return true
}

type walker struct {
	base    *baseFile
	root    *yaml.Node // document node of the base
	emit    func(m mutant)
	wantDoc func(id string) bool   // false: the caller will skip this mutant, do not build the tree
	filter  func(kind string) bool // nil or: which kinds to produce
	byRole  bool                   // quick tier: scalar kind families by leaf role (see applicable)
}

func (w *walker) inFocus(path string) bool {
	for _, s := range w.base.skip {
		if strings.HasPrefix(path+"/", s) {
			return false
		}
	}
	if len(w.base.focus) == 0 {
		return true
	}
	for _, f := range w.base.focus {
		if path == f || strings.HasPrefix(path, f+"/") {
			return true
		}
	}
	return false
}

// mutate clones the document, finds the node at the index path and lets edit change its parent.
func (w *walker) mutate(idx []int, edit func(parent *yaml.Node, i int)) *yaml.Node {
	doc := cloneNode(w.root)
	parent := doc
	for _, i := range idx[:len(idx)-1] {
		parent = parent.Content[i]
	}
	edit(parent, idx[len(idx)-1])
	return doc
}

func (w *walker) out(prefix, path, kind, family, leaf string, idx []int, edit func(parent *yaml.Node, i int)) {
	if w.filter != nil && !w.filter(kind) {
		return
	}
	if w.byRole && !applicable(leaf, family) {
		return
	}
	m := mutant{id: prefix + ":" + path + "|" + kind, family: family, leaf: leaf}
	if w.wantDoc(m.id) {
		m.doc = w.mutate(idx, edit)
	}
	w.emit(m)
}

func replaceWith(n func() *yaml.Node) func(parent *yaml.Node, i int) {
	return func(parent *yaml.Node, i int) { parent.Content[i] = n() }
}

// walk visits the value node at idx (index path from the document node).
func (w *walker) walk(n *yaml.Node, idx []int, path string, leaf string, underMatch bool) {
	focus := w.inFocus(path)
	if focus && len(idx) > 1 {
		w.valueSite(n, idx, path, leaf, underMatch)
	}
	switch n.Kind {
	case yaml.MappingNode:
		for i := 0; i+1 < len(n.Content); i += 2 {
			k, v := n.Content[i], n.Content[i+1]
			cpath := k.Value
			if path != "" {
				cpath = path + "/" + k.Value
			}
			keyLeaf := k.Value
			valLeaf := k.Value
			if userKeyed[leaf] {
				keyLeaf = leaf + ".<key>"
				valLeaf = leaf + ".<value>"
			}
			if w.inFocus(cpath) {
				w.keySite(n, k, append(append([]int{}, idx...), i), cpath, keyLeaf)
			}
			w.walk(v, append(append([]int{}, idx...), i+1), cpath, valLeaf, leaf == "match")
		}
	case yaml.SequenceNode:
		for i, e := range n.Content {
			cpath := fmt.Sprintf("%s/[%d]", path, i)
			eidx := append(append([]int{}, idx...), i)
			if w.inFocus(cpath) {
				w.elementSite(n, eidx, cpath, leaf+"[]")
			}
			w.walk(e, eidx, cpath, leaf+"[]", false)
		}
	}
}

func (w *walker) keySite(m *yaml.Node, k *yaml.Node, idx []int, path, leaf string) {
	w.out("K", path, "key-unknown", "key", leaf, idx, func(p *yaml.Node, i int) { p.Content[i] = plain("zzUnknown") })
	w.out("K", path, "key-empty", "key", leaf, idx, func(p *yaml.Node, i int) { p.Content[i] = str("") })
	w.out("K", path, "key-null", "key", leaf, idx, func(p *yaml.Node, i int) { p.Content[i] = null() })
	w.out("K", path, "key-number", "key", leaf, idx, func(p *yaml.Node, i int) { p.Content[i] = plain("99999999999999999999") })
	w.out("K", path, "key-case", "key", leaf, idx, func(p *yaml.Node, i int) { p.Content[i] = plain(strings.ToUpper(p.Content[i].Value)) })
	w.out("K", path, "key-deleted", "key:section-deleted", leaf, idx, func(p *yaml.Node, i int) {
		p.Content = append(append([]*yaml.Node{}, p.Content[:i]...), p.Content[i+2:]...)
	})
	w.out("K", path, "key-duplicated", "key:duplicated", leaf, idx, func(p *yaml.Node, i int) {
		p.Content = append(p.Content, cloneNode(p.Content[i]), cloneNode(p.Content[i+1]))
	})
	if idx[len(idx)-1] == 0 && k.Value == "type" && len(m.Content) >= 4 {
		w.out("K", path, "type-not-first", "key", leaf, idx, func(p *yaml.Node, i int) {
			p.Content[0], p.Content[1], p.Content[2], p.Content[3] = p.Content[2], p.Content[3], p.Content[0], p.Content[1]
		})
	}
}

func (w *walker) elementSite(s *yaml.Node, idx []int, path, leaf string) {
	w.out("E", path, "element-deleted", "element", leaf, idx, func(p *yaml.Node, i int) {
		p.Content = append(append([]*yaml.Node{}, p.Content[:i]...), p.Content[i+1:]...)
	})
	w.out("E", path, "element-duplicated", "element", leaf, idx, func(p *yaml.Node, i int) {
		p.Content = append(p.Content, cloneNode(p.Content[i]))
	})
}

func (w *walker) valueSite(n *yaml.Node, idx []int, path, leaf string, underMatch bool) {
	switch n.Kind {
	case yaml.ScalarNode:
		tag := customTag(n)
		for _, k := range scalarKinds(n) {
			k := k
			w.out("V", path, k.name, k.family, leaf, idx, func(p *yaml.Node, i int) {
				if k.node != nil {
					p.Content[i] = k.node()
					return
				}
				nn := plain(k.value)
				if tag != "" { // keep a matcher tag so that the expression of that operator is what gets mutated
					nn.Tag = tag
					nn.Style = yaml.TaggedStyle
				}
				p.Content[i] = nn
			})
		}
		if underMatch {
			for _, t := range matcherTags {
				t := t
				w.out("V", path, "tag:"+t, "scalar:matcher-tag", leaf, idx, func(p *yaml.Node, i int) {
					p.Content[i] = &yaml.Node{Kind: yaml.ScalarNode, Tag: t, Style: yaml.TaggedStyle, Value: p.Content[i].Value}
				})
				if t != "!!str-any" {
					w.out("V", path, "tag-empty:"+t, "scalar:matcher-tag", leaf, idx, func(p *yaml.Node, i int) {
						p.Content[i] = &yaml.Node{Kind: yaml.ScalarNode, Tag: t, Style: yaml.TaggedStyle, Value: ""}
					})
				}
			}
		}
	case yaml.MappingNode:
		w.out("V", path, "map-to-scalar", "mapping", leaf, idx, replaceWith(func() *yaml.Node { return plain("zzUnknown") }))
		w.out("V", path, "map-to-sequence", "mapping", leaf, idx, replaceWith(func() *yaml.Node { return flowSeq(plain("zzUnknown")) }))
		w.out("V", path, "map-empty", "mapping", leaf, idx, replaceWith(func() *yaml.Node { return flowMap() }))
		w.out("V", path, "map-null", "mapping", leaf, idx, replaceWith(null))
		w.out("V", path, "map-empty-string", "mapping", leaf, idx, replaceWith(func() *yaml.Node { return str("") }))
		w.out("V", path, "map-number", "mapping", leaf, idx, replaceWith(func() *yaml.Node { return plain("99999999999999999999") }))
		w.out("V", path, "map-wrapped-in-sequence", "mapping", leaf, idx, func(p *yaml.Node, i int) { p.Content[i] = seqOf(p.Content[i]) })
		w.out("V", path, "map-type-only", "mapping", leaf, idx, replaceWith(func() *yaml.Node { return flowMap(plain("type"), plain("zzUnknown")) }))
	case yaml.SequenceNode:
		w.out("V", path, "seq-to-scalar", "sequence", leaf, idx, replaceWith(func() *yaml.Node { return plain("zzUnknown") }))
		w.out("V", path, "seq-to-mapping", "sequence", leaf, idx, replaceWith(func() *yaml.Node { return flowMap(plain("zzUnknown"), plain("zzUnknown")) }))
		w.out("V", path, "seq-empty", "sequence", leaf, idx, replaceWith(func() *yaml.Node { return flowSeq() }))
		w.out("V", path, "seq-null", "sequence", leaf, idx, replaceWith(null))
		w.out("V", path, "seq-empty-string", "sequence", leaf, idx, replaceWith(func() *yaml.Node { return str("") }))
		w.out("V", path, "seq-number", "sequence", leaf, idx, replaceWith(func() *yaml.Node { return plain("99999999999999999999") }))
		if len(n.Content) > 0 {
			w.out("V", path, "seq-unwrapped", "sequence", leaf, idx, func(p *yaml.Node, i int) { p.Content[i] = p.Content[i].Content[0] })
		}
		w.out("V", path, "seq-nested", "sequence", leaf, idx, func(p *yaml.Node, i int) { p.Content[i] = seqOf(p.Content[i]) })
		appendKinds := []struct {
			name string
			mk   func() *yaml.Node
		}{
			{"seq-append-unknown", func() *yaml.Node { return plain("zzUnknown") }},
			{"seq-append-null", null},
			{"seq-append-empty", func() *yaml.Node { return str("") }},
			{"seq-append-empty-map", func() *yaml.Node { return flowMap() }},
			{"seq-append-unknown-type", func() *yaml.Node { return flowMap(plain("type"), plain("zzUnknown")) }},
			{"seq-append-number", func() *yaml.Node { return plain("99999999999999999999") }},
		}
		for _, a := range appendKinds {
			a := a
			w.out("V", path, a.name, "sequence", leaf, idx, func(p *yaml.Node, i int) {
				p.Content[i].Content = append(p.Content[i].Content, a.mk())
			})
			w.out("V", path, a.name+"-first", "sequence", leaf, idx, func(p *yaml.Node, i int) {
				p.Content[i].Content = append([]*yaml.Node{a.mk()}, p.Content[i].Content...)
			})
		}
	}
}

// enumerateMutants walks the base and calls emit for every (site, kind) in a fixed order.
func enumerateMutants(b *baseFile, root *yaml.Node, byRole bool, filter func(kind string) bool, wantDoc func(id string) bool, emit func(m mutant)) {
	w := &walker{base: b, root: root, emit: emit, wantDoc: wantDoc, filter: filter, byRole: byRole}
	top := root.Content[0]
	w.walk(top, []int{0}, "", "", false)
}

// ---- diagnosis used only to name a violation class: the first section holder that is absent or null, in the order
// in which run.ParseConfigFile verifies the sections.

func mapGet(m *yaml.Node, key string) (*yaml.Node, bool) {
	if m == nil || m.Kind != yaml.MappingNode {
		return nil, false
	}
	for i := 0; i+1 < len(m.Content); i += 2 {
		if m.Content[i].Value == key && !isNull(m.Content[i]) {
			return m.Content[i+1], true
		}
	}
	return nil, false
}

func nilTransformIn(list *yaml.Node) bool {
	if list == nil || list.Kind != yaml.SequenceNode {
		return false
	}
	for _, e := range list.Content {
		if isNull(e) {
			return true
		}
		for _, sub := range []string{"then", "steps"} {
			if l, ok := mapGet(e, sub); ok && nilTransformIn(l) {
				return true
			}
		}
		if cases, ok := mapGet(e, "cases"); ok && cases.Kind == yaml.SequenceNode {
			for _, c := range cases.Content {
				if l, ok := mapGet(c, "then"); ok && nilTransformIn(l) {
					return true
				}
			}
		}
	}
	return false
}

func firstNilHolder(doc *yaml.Node) string {
	top := doc.Content[0]
	if inputs, ok := mapGet(top, "inputs"); ok && inputs.Kind == yaml.SequenceNode {
		for _, in := range inputs.Content {
			if isNull(in) {
				return "input"
			}
			if ex, ok := mapGet(in, "extractions"); ok && nilTransformIn(ex) {
				return "transform"
			}
		}
	}
	if o, ok := mapGet(top, "orchestration"); !ok || isNull(o) {
		return "orchestration"
	}
	if t, ok := mapGet(top, "transformations"); ok && nilTransformIn(t) {
		return "transform"
	}
	if pairs, ok := mapGet(top, "outputBufferPairs"); ok && pairs.Kind == yaml.SequenceNode {
		for _, p := range pairs.Content {
			if isNull(p) {
				return "buffer"
			}
			if b, ok := mapGet(p, "buffer"); !ok || isNull(b) {
				return "buffer"
			}
			o, ok := mapGet(p, "output")
			if !ok || isNull(o) {
				return "output"
			}
			if ser, ok := mapGet(o, "serialization"); ok {
				if rw, ok := mapGet(ser, "rewriteFields"); ok && rw.Kind == yaml.MappingNode {
					for i := 1; i < len(rw.Content); i += 2 {
						if l := rw.Content[i]; l.Kind == yaml.SequenceNode {
							for _, e := range l.Content {
								if isNull(e) {
									return "rewriter"
								}
							}
						}
					}
				}
			}
		}
	}
	return ""
}
