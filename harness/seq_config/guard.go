package main

// Stall guard for the loader: "any configuration it does not accept is reported as an error value, never as a crash" -
// a loader that never returns is a crash-class failure. run.ParseConfigFile runs on its own goroutine (locked to its
// own OS thread); the case waits for it with a patience counted in ticks of this process's own 5 ms clock (a starved
// process does not tick either) and corroborated by the CPU time the loader's thread has really consumed. No wall-clock
// verdict: on a loaded machine the verdict comes later, never earlier. The 5-minute stalled-case watchdog of seq stays
// behind it.

import (
	"fmt"
	"os"
	"runtime"
	"strconv"
	"strings"
	"sync"
	"sync/atomic"
	"syscall"
	"time"

	"github.com/relex/slog-agent/base"
	"github.com/relex/slog-agent/run"
)

var (
	ticks      atomic.Int64
	tickerOnce sync.Once
)

const (
	// a load takes 1-5 ms of CPU. Verdict "does not return": more than patienceTicks ticks have passed AND the loader's
	// thread has burnt at least stallCPU of CPU time (a loop), or more than blockedTicks ticks have passed at all (blocked).
	patienceTicks = 2000 // x 5 ms: >= 10 s of this process's own clock
	blockedTicks  = 10 * patienceTicks
	stallCPU      = 2 * time.Second
)

func startTicker() {
	tickerOnce.Do(func() {
		go func() {
			for {
				time.Sleep(5 * time.Millisecond)
				ticks.Add(1)
			}
		}()
	})
}

type loadResult struct {
	conf   run.Config
	schema base.LogSchema
	stats  run.ConfigStats
	err    error
	site   string // panic site, "" if none
	detail string
}

// threadCPU returns the CPU time consumed so far by one thread of this process (utime+stime of /proc/self/task/<tid>/stat).
func threadCPU(tid int) time.Duration {
	data, err := os.ReadFile(fmt.Sprintf("/proc/self/task/%d/stat", tid))
	if err != nil {
		return 0
	}
	s := string(data)
	if i := strings.LastIndexByte(s, ')'); i >= 0 { // skip "pid (comm)"
		s = s[i+1:]
	}
	f := strings.Fields(s)
	if len(f) < 13 {
		return 0
	}
	ut, _ := strconv.ParseInt(f[11], 10, 64) // fields 14 and 15 of the line
	st, _ := strconv.ParseInt(f[12], 10, 64)
	return time.Duration(ut+st) * (time.Second / 100) // USER_HZ is 100 on Linux
}

// loaderFrame is the function the loader goroutine is found by in a goroutine dump.
func loaderFrame(path string, res *loadResult) {
	res.site, res.detail = catch(func() {
		res.conf, res.schema, res.stats, res.err = run.ParseConfigFile(path)
	})
}

// guardedLoad runs the real loader entry point. returned=false: it did not come back; stuckAt names the slog-agent
// function it was executing when the patience ran out.
func guardedLoad(path string) (res loadResult, returned bool, stuckAt string, waited string) {
	startTicker()
	done := make(chan *loadResult, 1)
	var tid atomic.Int64
	go func() {
		runtime.LockOSThread()
		tid.Store(int64(syscall.Gettid()))
		r := &loadResult{}
		loaderFrame(path, r)
		runtime.UnlockOSThread()
		done <- r
	}()
	start := ticks.Load()
	poll := time.NewTimer(time.Millisecond)
	defer poll.Stop()
	for {
		select {
		case r := <-done:
			return *r, true, "", ""
		case <-poll.C:
		}
		elapsed := ticks.Load() - start
		if elapsed > patienceTicks {
			cpu := threadCPU(int(tid.Load()))
			if cpu >= stallCPU || elapsed > blockedTicks {
				stuckAt = stuckFrame()
				// the goroutine cannot be stopped: give the thread the lowest priority and the rest of the process one
				// more P, so that the following cases of this worker are not slowed down by the spinning loader
				syscall.Setpriority(syscall.PRIO_PROCESS, int(tid.Load()), 19)
				runtime.GOMAXPROCS(runtime.GOMAXPROCS(0) + 1)
				return loadResult{}, false, stuckAt, fmt.Sprintf("%d ticks of the process's own 5 ms clock, %v of CPU time on the loader's thread", elapsed, cpu)
			}
		}
		if elapsed < 4 {
			poll.Reset(time.Millisecond)
		} else {
			poll.Reset(20 * time.Millisecond)
		}
	}
}

// stuckFrame finds the loader goroutine in a dump of all goroutines and returns its innermost slog-agent frame.
func stuckFrame() string {
	buf := make([]byte, 1<<20)
	buf = buf[:runtime.Stack(buf, true)]
	for _, g := range strings.Split(string(buf), "\n\n") {
		if !strings.Contains(g, "main.loaderFrame") {
			continue
		}
		for _, l := range strings.Split(g, "\n") {
			if strings.HasPrefix(l, "\t") || !strings.Contains(l, "github.com/relex/slog-agent/") {
				continue
			}
			fn := l
			if j := strings.LastIndex(fn, "/"); j >= 0 {
				fn = fn[j+1:]
			}
			if j := strings.LastIndex(fn, "("); j > 0 {
				fn = fn[:j]
			}
			fn = strings.TrimSuffix(fn, "[...]")
			if j := strings.Index(fn, ".func"); j > 0 {
				fn = fn[:j]
			}
			return fn
		}
	}
	return "unknown"
}
