package main

// Stall guard for the loader: "any configuration it does not accept is reported as an error value, never as a crash" -
// a loader that never returns is a crash-class failure, and a goroutine that never returns cannot be stopped. Every
// file is therefore first given to run.ParseConfigFile in a helper process (this binary, started once per worker with
// C16_LOADER_CHILD=1, fed file names over a pipe). Only when the helper has answered is the file loaded in-process (the
// loader is deterministic). The worker waits for the answer with a patience counted in ticks of ITS OWN 5 ms clock (a
// starved process does not tick either), corroborated by the CPU time the helper has really consumed since the request:
// no wall-clock verdict - on a loaded machine the verdict comes later, never earlier. When the patience runs out the
// helper is asked where its loader goroutine is (goroutine dump), then killed; the next case gets a fresh helper. The
// 5-minute stalled-case watchdog of seq stays behind all this.

import (
	"bufio"
	"fmt"
	"io"
	"os"
	"os/exec"
	"runtime"
	"strconv"
	"strings"
	"sync"
	"sync/atomic"
	"time"

	"github.com/relex/slog-agent/base"
	"github.com/relex/slog-agent/run"
)

var (
	ticks      atomic.Int64
	tickerOnce sync.Once
)

const (
	// a load takes about 1 ms of CPU. Verdict "does not return": more than patienceTicks ticks have passed AND the helper
	// has burnt at least stallCPU of CPU time on the request (a loop), or more than blockedTicks ticks have passed at all
	// (blocked without using CPU).
	patienceTicks = 2000 // x 5 ms: >= 10 s of this process's own clock
	blockedTicks  = 10 * patienceTicks
	stallCPU      = 2 * time.Second
	loaderChild   = "C16_LOADER_CHILD"
)

func startTicker() {
	tickerOnce.Do(func() {
		go func() {
			for {
				time.Sleep(5 * time.Millisecond)
				ticks.Add(1)
			}
		}()
	})
}

type loadResult struct {
	conf   run.Config
	schema base.LogSchema
	stats  run.ConfigStats
	err    error
	site   string // panic site, "" if none
	detail string
}

// loaderFrame is the function the loader goroutine is found by in a goroutine dump.
func loaderFrame(path string, res *loadResult) {
	res.site, res.detail = catch(func() {
		res.conf, res.schema, res.stats, res.err = run.ParseConfigFile(path)
	})
}

// ---- helper process side

// loaderChildMain: "L <path>" starts a load on its own goroutine and answers "done" when it returns (value or panic);
// "?" answers "stuck <innermost slog-agent function of the loader goroutine>" and ends the process.
func loaderChildMain() {
	lowerLimits()
	in := bufio.NewReader(os.Stdin)
	var out sync.Mutex
	say := func(s string) {
		out.Lock()
		fmt.Fprintln(os.Stdout, s)
		out.Unlock()
	}
	for {
		line, err := in.ReadString('\n')
		if err != nil {
			os.Exit(0)
		}
		line = strings.TrimSuffix(line, "\n")
		switch {
		case strings.HasPrefix(line, "L "):
			path := line[2:]
			go func() {
				var r loadResult
				loaderFrame(path, &r)
				say("done")
			}()
		case line == "?":
			say("stuck " + stuckFrame())
			os.Exit(0)
		}
	}
}

// stuckFrame finds the loader goroutine in a dump of all goroutines and returns its innermost slog-agent frame.
func stuckFrame() string {
	buf := make([]byte, 1<<20)
	buf = buf[:runtime.Stack(buf, true)]
	for _, g := range strings.Split(string(buf), "\n\n") {
		if !strings.Contains(g, "main.loaderFrame") {
			continue
		}
		for _, l := range strings.Split(g, "\n") {
			if strings.HasPrefix(l, "\t") || !strings.Contains(l, "github.com/relex/slog-agent/") {
				continue
			}
			fn := l
			if j := strings.LastIndex(fn, "/"); j >= 0 {
				fn = fn[j+1:]
			}
			if j := strings.LastIndex(fn, "("); j > 0 {
				fn = fn[:j]
			}
			fn = strings.TrimSuffix(fn, "[...]")
			if j := strings.Index(fn, ".func"); j > 0 {
				fn = fn[:j]
			}
			return fn
		}
	}
	return "unknown"
}

// ---- worker side

type loaderProc struct {
	cmd   *exec.Cmd
	in    io.WriteCloser
	lines chan string
}

var helper *loaderProc

func startHelper() (*loaderProc, error) {
	cmd := exec.Command(os.Args[0])
	cmd.Env = append(os.Environ(), loaderChild+"=1", "GOMAXPROCS=2")
	in, err := cmd.StdinPipe()
	if err != nil {
		return nil, err
	}
	out, err := cmd.StdoutPipe()
	if err != nil {
		return nil, err
	}
	if err := cmd.Start(); err != nil {
		return nil, err
	}
	p := &loaderProc{cmd: cmd, in: in, lines: make(chan string, 4)}
	go func() {
		sc := bufio.NewScanner(out)
		for sc.Scan() {
			p.lines <- sc.Text()
		}
		close(p.lines)
	}()
	return p, nil
}

func (p *loaderProc) kill() {
	p.in.Close()
	p.cmd.Process.Kill()
	p.cmd.Wait()
}

func stopHelper() {
	if helper != nil {
		helper.kill()
		helper = nil
	}
}

// processCPU returns the CPU time consumed so far by a process (utime+stime of /proc/<pid>/stat, all threads).
func processCPU(pid int) time.Duration {
	data, err := os.ReadFile(fmt.Sprintf("/proc/%d/stat", pid))
	if err != nil {
		return 0
	}
	s := string(data)
	if i := strings.LastIndexByte(s, ')'); i >= 0 { // skip "pid (comm)"
		s = s[i+1:]
	}
	f := strings.Fields(s)
	if len(f) < 13 {
		return 0
	}
	ut, _ := strconv.ParseInt(f[11], 10, 64) // fields 14 and 15 of the line
	st, _ := strconv.ParseInt(f[12], 10, 64)
	return time.Duration(ut+st) * (time.Second / 100) // USER_HZ is 100 on Linux
}

// guardedLoad runs the real loader entry point. returned=false: it did not come back; stuckAt names the slog-agent
// function it was executing when the patience ran out.
func guardedLoad(path string) (res loadResult, returned bool, stuckAt string, waited string) {
	startTicker()
	for attempt := 0; ; attempt++ {
		if helper == nil {
			h, err := startHelper()
			if err != nil {
				panic("harness: cannot start the loader helper process: " + err.Error())
			}
			helper = h
		}
		cpu0 := processCPU(helper.cmd.Process.Pid)
		if _, err := fmt.Fprintf(helper.in, "L %s\n", path); err != nil {
			stopHelper()
			if attempt < 2 {
				continue
			}
			panic("harness: the loader helper process does not take requests: " + err.Error())
		}
		start := ticks.Load()
		poll := time.NewTimer(20 * time.Millisecond)
		helperDied := false
	wait:
		for {
			select {
			case line, ok := <-helper.lines:
				if !ok {
					helperDied = true // e.g. a fatal error of the runtime inside the loader (stack overflow, out of memory)
					break wait
				}
				if line == "done" {
					poll.Stop()
					var r loadResult
					loaderFrame(path, &r)
					return r, true, "", ""
				}
			case <-poll.C:
				poll.Reset(20 * time.Millisecond)
			}
			elapsed := ticks.Load() - start
			if elapsed <= patienceTicks {
				continue
			}
			cpu := processCPU(helper.cmd.Process.Pid) - cpu0
			if cpu < stallCPU && elapsed <= blockedTicks {
				continue
			}
			poll.Stop()
			// ask where it is, then end it
			stuckAt = "unknown"
			fmt.Fprintf(helper.in, "?\n")
			askedAt := ticks.Load()
		ask:
			for ticks.Load()-askedAt <= patienceTicks {
				select {
				case line, ok := <-helper.lines:
					if !ok {
						break ask
					}
					if strings.HasPrefix(line, "stuck ") {
						stuckAt = strings.TrimPrefix(line, "stuck ")
						break ask
					}
					if line == "done" { // it came back after all, just now: not a stall
						stopHelper()
						var r loadResult
						loaderFrame(path, &r)
						return r, true, "", ""
					}
				case <-time.After(20 * time.Millisecond):
				}
			}
			stopHelper()
			return loadResult{}, false, stuckAt, fmt.Sprintf("%d ticks of the process's own 5 ms clock, %v of CPU time used by the loading process meanwhile", elapsed, cpu)
		}
		poll.Stop()
		if helperDied {
			stopHelper()
			// the helper died inside the load: run it here, so that the death is attributed to this case by seq
			var r loadResult
			loaderFrame(path, &r)
			return r, true, "", ""
		}
	}
}
