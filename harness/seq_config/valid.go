package main

// The VALID side: a bounded grammar of configurations that the documentation (comments of config_sample.yml and the
// package comments / tests of each transform) describes as valid. Every one must be accepted and instantiate.

import (
	"fmt"
	"strings"
)

type leafT struct{ name, yaml string }

// leaf transforms: every type with a small parameter menu (values taken from the sample file and the package tests)
var validLeaves = []leafT{
	{"addFields-const", "type: addFields\nfields:\n  class: fixed\n"},
	{"addFields-var", "type: addFields\nfields:\n  class: $app\n"},
	{"addFields-slice", "type: addFields\nfields:\n  class: ${task[-1:]}\n"},
	{"addFields-slice2", "type: addFields\nfields:\n  class: ${task[-3:-1]}\n"},
	{"addFields-slice3", "type: addFields\nfields:\n  host: ${host[:-4]}\n"},
	{"addFields-mixed", "type: addFields\nfields:\n  log: task=$task $log\n"},
	{"addFields-multi", "type: addFields\nfields:\n  class: $task:$class\n  vhost: service-$vhost\n"},
	{"delFields-1", "type: delFields\nkeys: [class]\n"},
	{"delFields-3", "type: delFields\nkeys: [facility, pid, extradata]\n"},
	{"drop-100", "type: drop\nmatch:\n  source: auth.log\n  level: !!str-not fatal\npercentage: 100\nmetricLabel: app-auth\n"},
	{"drop-33", "type: drop\nmatch:\n  level: !!str warn\npercentage: 33\nmetricLabel: downsampled\n"},
	{"drop-1", "type: drop\nmatch:\n  level: info\npercentage: 1\nmetricLabel: one\n"},
	{"extract", "type: extract\nkey: source\npattern: ^((?P<class>[^ /]+)/)?(?P<task>[^ ]*?)(\\.(?P<vhost>-?[0-9]+))?$\n"},
	{"extract-unnamed", "type: extract\nkey: source\npattern: ^([a-z]+)\\.log$\n"},
	{"extractHead-star", "type: extractHead\nkey: log\npattern: '\\[*\\] - '\nmaxLen: 100\ndestKey: class\n"},
	{"extractHead-chars", "type: extractHead\nkey: log\npattern: 'component=[a-z0-9_],'\nmaxLen: 50\ndestKey: class\n"},
	{"extractHead-chars-only", "type: extractHead\nkey: log\npattern: '[A-Z]'\nmaxLen: 10\ndestKey: class\n"},
	{"extractTail-chars", "type: extractTail\nkey: source\npattern: :[0-9a-f-]\nmaxLen: 41\ndestKey: task\n"},
	{"extractTail-star", "type: extractTail\nkey: app\npattern: /*\nmaxLen: 100\ndestKey: vhost\n"},
	{"extractTail-log", "type: extractTail\nkey: source\npattern: .log.[0-9A-Z]\nmaxLen: 30\ndestKey: task\n"},
	{"mapValue", "type: mapValue\nkey: level\nmapping:\n  emergency: FATAL\n  warning: WARN\n  info: INFO\ndefault: UNKNOWN\n"},
	{"parseTime", "type: parseTime\nkey: time\nerrorLabel: timeError\n"},
	{"redactEmail", "type: redactEmail\nkey: log\nmetricLabel: redacted\n"},
	{"replace", "type: replace\nkey: log\npattern: ^(P(OS|U)T \".*\".*params=.{145}).{15,}$\nreplacement: $1 ... (cut)\n"},
	{"truncate", "type: truncate\nkey: log\nmaxLen: 180\nsuffix: ' ... (cut)'\n"},
	{"truncate-1", "type: truncate\nkey: log\nmaxLen: 1\nsuffix: '~'\n"},
	{"unescape", "type: unescape\nkey: log\n"},
	// "addFields: could cause high CPU & mem when field values are huge" (sample comment): a value may reference the same
	// large field more than once, and several fields may copy it
	{"addFields-amplify", "type: addFields\nfields:\n  log: $log$log$log\n"},
	{"addFields-copies", "type: addFields\nfields:\n  class: $log\n  task: $log\n"},
}

// amplifiers: transformation lists that let a record within the input limits grow (x2 is the size of the Fluentd
// serializer buffer, so the menu goes from below to well above it)
var amplifiers = []struct{ name, yaml string }{
	{"copy-1", "- type: addFields\n  fields:\n    class: $log\n"},
	{"copies-2", "- type: addFields\n  fields:\n    class: $log\n    task: $log\n"},
	{"template-2x", "- type: addFields\n  fields:\n    log: $log$log\n"},
	{"template-3x", "- type: addFields\n  fields:\n    log: $log$log$log\n"},
	{"chain-4x", "- type: addFields\n  fields:\n    log: $log$log\n- type: addFields\n  fields:\n    log: $log$log\n"},
	{"env-copy", "- type: addFields\n  fields:\n    host: $log\n    app: $log\n"},
}

var validMatches = []string{
	"app: appServ\n",
	"source: access.log\n",
	"task: !!len-lt 1\n",
	"class: !!str-any\ntask: !!str-any\n",
	"log: !!glob P[OU][ST]** params=**\n",
	"facility: !!str-eq kern\nlevel: !!str-not notice\ntime: !!str-start 2020/\nhost: !!str-end .com\napp: !!str-contain server\nvhost: !!glob api.*.{com,.co.uk}\nlog: !!regex ^(P(OS|U)T)\\s\npid: !!len-gt 5\nsource: !!len-lt 2\ntask: !!str-any\n",
	"level: !!str warn\n",
	"host: !!str-end .com\n",
	"log: !!regex ^(P(OS|U)T)\\s\n",
	"pid: !!len-gt 5\n",
}

func item(body string) string {
	lines := strings.Split(strings.TrimRight(body, "\n"), "\n")
	for i, l := range lines {
		if i == 0 {
			lines[i] = "- " + l
		} else {
			lines[i] = "  " + l
		}
	}
	return strings.Join(lines, "\n") + "\n"
}

func wrapIf(match string, steps string) string {
	return "type: if\nmatch:\n" + indent(match, 2) + "\nthen:\n" + indent(steps, 2) + "\n"
}

func wrapBlock(steps string) string {
	return "type: block\nsteps:\n" + indent(steps, 2) + "\n"
}

func wrapSwitch(match1, steps1, match2, steps2 string) string {
	return "type: switch\ncases:\n  - match:\n" + indent(match1, 6) + "\n    then:\n" + indent(steps1, 6) + "\n" +
		"  - match:\n" + indent(match2, 6) + "\n    then:\n" + indent(steps2, 6) + "\n"
}

type validCase struct {
	id   string
	text string
}

// enumerateValid produces the valid configurations in a fixed order. want() tells whether the text is needed.
func enumerateValid(thorough bool, want func(id string) bool, emit func(v validCase)) {
	out := func(id string, build func() string) {
		v := validCase{id: id}
		if want(id) {
			v.text = build()
		}
		emit(v)
	}
	place := func(id string, steps func() string) {
		out(id+"@transformations", func() string { return skeleton(parts{transforms: steps()}) })
		out(id+"@extractions", func() string { return skeleton(parts{extractions: steps()}) })
	}
	nm := len(validMatches)
	// depth 0: every leaf alone; every ordered pair of leaves
	for _, l := range validLeaves {
		l := l
		place("leaf/"+l.name, func() string { return item(l.yaml) })
	}
	for i, a := range validLeaves {
		for j, b := range validLeaves {
			if !thorough && (i+j)%3 != 0 {
				continue
			}
			a, b := a, b
			out(fmt.Sprintf("pair/%s+%s", a.name, b.name), func() string {
				return skeleton(parts{transforms: item(a.yaml) + item(b.yaml)})
			})
		}
	}
	// depth 1: each container around each leaf, with every match expression of the menu
	for li, l := range validLeaves {
		l := l
		place("block/"+l.name, func() string { return item(wrapBlock(item(l.yaml))) })
		for mi, m := range validMatches {
			if !thorough && (li+mi)%2 != 0 {
				continue
			}
			m := m
			m2 := validMatches[(mi+1)%nm]
			l2 := validLeaves[(li+1)%len(validLeaves)]
			place(fmt.Sprintf("if/m%d/%s", mi, l.name), func() string { return item(wrapIf(m, item(l.yaml))) })
			place(fmt.Sprintf("switch/m%d/%s", mi, l.name), func() string {
				return item(wrapSwitch(m, item(l.yaml), m2, item(l2.yaml)))
			})
		}
	}
	// depth 2: container in container around each leaf
	containers := []string{"if", "switch", "block"}
	for li, l := range validLeaves {
		for oi, outer := range containers {
			for ii, inner := range containers {
				l := l
				m := validMatches[(li+oi)%nm]
				m2 := validMatches[(li+oi+ii+1)%nm]
				l2 := validLeaves[(li+7)%len(validLeaves)]
				build := func(kind string, match, matchOther string, steps string) string {
					switch kind {
					case "if":
						return wrapIf(match, steps)
					case "switch":
						return wrapSwitch(match, steps, matchOther, item(l2.yaml))
					default:
						return wrapBlock(steps)
					}
				}
				outer, inner := outer, inner
				place(fmt.Sprintf("%s/%s/%s", outer, inner, l.name), func() string {
					in := build(inner, m2, m, item(l.yaml))
					return item(build(outer, m, m2, item(in)+item(l2.yaml)))
				})
			}
		}
	}
	// orchestrators, outputs, rewriter chains: every combination of the small menus
	orchs := []struct{ name, yaml, metricKeys string }{
		{"singleton", "type: singleton\ntag: development.mini\n", "[host]"},
		{"byKeySet-1", "type: byKeySet\nkeys: [app]\ntag: development.$app\n", "[host, vhost, source]"},
		{"byKeySet-3", "type: byKeySet\nkeys: [app, level, vhost]\ntag: ${level[:1]}.$app.${vhost[-3:]}\n", "[host]"},
		{"byKeySet-const-tag", "type: byKeySet\nkeys: [level]\ntag: constant\n", "[host, app]"},
	}
	outs := []struct{ name, yaml string }{
		{"datadog", defaultOutput},
		{"datadog-nohidden", "type: datadog\nupstream:\n  address: https://http-intake.logs.datadoghq.eu/api/v2/logs\n  httpTimeout: 30s\n"},
	}
	for _, mode := range []string{"Forward", "PackedForward", "CompressedPackedForward"} {
		outs = append(outs, struct{ name, yaml string }{"fluentd-" + mode, fluentdOutput(mode, "")})
		for _, r := range rewriterSnippets {
			outs = append(outs, struct{ name, yaml string }{"fluentd-" + mode + "-" + r.name, fluentdOutput(mode, r.yaml)})
		}
	}
	for _, o := range orchs {
		for _, u := range outs {
			o, u := o, u
			out("orch-out/"+o.name+"/"+u.name, func() string {
				return skeleton(parts{orchestration: o.yaml, metricKeys: o.metricKeys, output: u.yaml})
			})
		}
	}
	// two outputs in one pipeline (they share the pipeline's metric creator, the record's reference count and the
	// transformed record): every ordered pair of outputs, the same one twice included
	for oi, o := range orchs {
		if !thorough && oi >= 2 {
			break
		}
		for _, a := range outs {
			for _, b := range outs {
				if !thorough && !(twoOutMenu[a.name] && twoOutMenu[b.name]) {
					continue
				}
				o, a, b := o, a, b
				out("two-out/"+o.name+"/"+a.name+"+"+b.name, func() string {
					return skeleton(parts{orchestration: o.yaml, metricKeys: o.metricKeys, output: a.yaml, moreOutputs: []string{b.yaml}})
				})
			}
		}
	}
	// amplification: every amplifier in front of every output
	for _, a := range amplifiers {
		for _, u := range outs {
			a, u := a, u
			out("amplify/"+a.name+"/"+u.name, func() string {
				return skeleton(parts{transforms: a.yaml, output: u.yaml})
			})
		}
	}
}

var twoOutMenu = map[string]bool{"datadog": true, "fluentd-Forward": true, "fluentd-PackedForward": true, "fluentd-CompressedPackedForward-inline-unescape": true}
