package main

// Access to the two unexported reload entry points of package run without editing /repo and without a build overlay:
// a body-less declaration bound by go:linkname to the method symbol (link.s, an empty assembly file, makes the compiler
// accept the missing body). Reloading is otherwise reachable only through SIGHUP, which every ReloadableOrchestrator
// ever created in the process would react to.

import (
	_ "unsafe" // go:linkname

	"github.com/relex/slog-agent/run"
)

// reloadNow is run.(*ReloadableOrchestrator).reload: what the SIGHUP handler calls.
//
//go:linkname reloadNow github.com/relex/slog-agent/run.(*ReloadableOrchestrator).reload
func reloadNow(orc *run.ReloadableOrchestrator)

// initiateReload is run.(*Reloader).initiateDownstreamReload: load the file again + checkConfigCompatibility. The
// returned function is NOT called by the harness (reloadNow does the whole reload); only the error value is used.
//
//go:linkname initiateReload github.com/relex/slog-agent/run.(*Reloader).initiateDownstreamReload
func initiateReload(r *run.Reloader) (run.CompleteReloadingFunc, error)
