// Command seq_config decides C16: accepted configurations always instantiate; rejected ones fail cleanly.
//
// Invalid side: every base file (sample configuration + one minimal file per transform, rewriter chain, matcher
// operator, orchestrator and output type) is parsed into a YAML node tree; every node in the focus of the base is a
// site; at every site every applicable kind of invalid value is substituted (one mutation per case); the mutant is
// rendered to a file and given to run.ParseConfigFile.
// Valid side: a bounded grammar of documented-valid configurations must be accepted.
// In both cases an accepted configuration is instantiated completely and fed the record menu.
package main

import (
	"encoding/json"
	"fmt"
	"io"
	"os"
	"strings"

	"github.com/relex/gotils/logger"
	"github.com/relex/slog-agent/defs"
	"gopkg.in/yaml.v3"

	"slogverif/seq"
)

var statsFile *os.File

func setup() error {
	logger.SetOutput(io.Discard)
	logger.SetLogLevel(logger.ErrorLevel)
	// smaller per-object buffers (serializer: 2x record limit, addFields: message limit): the record menu stays far
	// below these limits, construction of thousands of pipelines gets much cheaper
	defs.InputLogMaxMessageBytes = 128 * 1024
	defs.InputLogMaxRecordBytes = defs.InputLogMaxMessageBytes + 256
	defs.ListenerLineBufferSize = defs.InputLogMaxRecordBytes * 4
	// the queue of a hybrid bufferer is a Go channel of this capacity (24 MB zeroed per bufferer at the default)
	defs.BufferMaxNumChunksInQueue = 2000
	if p := os.Getenv("C16_STATS"); p != "" {
		statsFile, _ = os.OpenFile(p, os.O_APPEND|os.O_CREATE|os.O_WRONLY, 0o644)
	}
	return loadRecordMenu()
}

func bump(ctx *seq.Ctx, name string) {
	if ctx.Groups != nil {
		ctx.Groups[name]++
	}
}

func enumerate(ctx *seq.Ctx) {
	if err := setup(); err != nil {
		ctx.Case("setup", false, "", func() (string, string) { return "harness:setup", err.Error() })
		return
	}
	defer removeScratch()
	bases, err := allBases()
	if err != nil {
		ctx.Case("setup", false, "", func() (string, string) { return "harness:setup", err.Error() })
		return
	}
	opt := evalOptions{orchestrate: true, listen: true}

	// ---- documents that are no configuration at all
	ctx.Group("document")
	for _, d := range []struct{ id, text string }{
		{"doc/empty", ""}, {"doc/null", "~\n"}, {"doc/scalar", "zzUnknown\n"}, {"doc/sequence", "- a\n- b\n"}, {"doc/empty-map", "{}\n"},
		{"doc/number", "99999999999999999999\n"}, {"doc/two-documents", "a: 1\n---\nb: 2\n"}, {"doc/not-yaml", "a: [1, 2\n"}, {"doc/tab", "a:\n\tb: 1\n"},
		{"doc/binary", "\x00\x01\x02\xff"}, {"doc/alias-loop", "a: &a [*a]\n"}, {"doc/unknown-alias", "schema: *nowhere\n"},
	} {
		d := d
		ctx.Case(d.id, true, d.text, func() (string, string) {
			outcome, key, msg := evaluate(d.text, "", opt)
			bump(ctx, "outcome/document/"+outcome)
			if outcome == outAccepted {
				return "accepted:not-a-configuration", "a document that is no configuration was accepted"
			}
			return key, msg
		})
	}

	// ---- invalid side
	for bi := range bases {
		if ctx.Stop() {
			return
		}
		b := &bases[bi]
		root, perr := parseYAML(b.text)
		ctx.Group("base/" + b.family)
		ctx.Case("base/"+b.name, true, b.text, func() (string, string) {
			if perr != nil {
				return "harness:base-yaml", perr.Error()
			}
			outcome, key, msg := evaluate(b.text, "", opt)
			bump(ctx, "outcome/base/"+outcome)
			if outcome == outRejected {
				return "harness:base-rejected", "base file " + b.name + " is rejected by the loader: the harness' idea of a valid file is wrong"
			}
			return key, msg
		})
		if perr != nil {
			continue
		}
		ctx.Case("base/"+b.name+"/roundtrip", true, b.text, func() (string, string) {
			text, err := renderYAML(root)
			if err != nil {
				return "harness:render", err.Error()
			}
			outcome, key, msg := evaluate(text, "", opt)
			bump(ctx, "outcome/base/"+outcome)
			if outcome == outRejected {
				return "harness:roundtrip-rejected", "base file " + b.name + " re-rendered from its node tree is rejected"
			}
			return key, msg
		})
		enumerateMutants(b, root, func(id string) bool { return ctx.Mine() && (onlyCase == "" || onlyCase == b.name+"|"+id) }, func(m mutant) {
			if stop := ctx.Stop(); m.doc == nil || stop {
				ctx.Skip()
				return
			}
			ctx.Group("mutant/" + b.family + "/" + m.family)
			text, rerr := renderYAML(m.doc)
			id := b.name + "|" + m.id
			ctx.Case(id, true, text, func() (string, string) {
				if rerr != nil {
					return "harness:render", rerr.Error()
				}
				var check yaml.Node
				if err := yaml.Unmarshal([]byte(text), &check); err != nil {
					return "harness:render-invalid-yaml", err.Error()
				}
				outcome, key, msg := evaluate(text, firstNilHolder(m.doc), opt)
				bump(ctx, "outcome/"+m.family+"/"+outcome)
				if statsFile != nil {
					fmt.Fprintf(statsFile, "%s\t%s\t%s\t%s\t%s\n", b.name, m.leaf, m.id[strings.LastIndex(m.id, "|")+1:], outcome, key)
				}
				return key, msg
			})
		})
	}

	// ---- valid side
	ctx.Group("valid")
	enumerateValid(ctx.Thorough(), func(id string) bool { return ctx.Mine() && (onlyCase == "" || onlyCase == "valid/"+id) }, func(v validCase) {
		if stop := ctx.Stop(); v.text == "" || stop {
			ctx.Skip()
			return
		}
		grp := v.id
		if i := strings.Index(grp, "/"); i > 0 {
			grp = grp[:i]
		}
		ctx.Group("valid/" + grp)
		ctx.Case("valid/"+v.id, true, v.text, func() (string, string) {
			outcome, key, msg := evaluate(v.text, "", opt)
			bump(ctx, "outcome/valid/"+outcome)
			if outcome == outRejected {
				_, _, _, err := parseOnly(v.text)
				return "valid-rejected:" + grp, fmt.Sprintf("a configuration built only from documented-valid parts was rejected: %v", err)
			}
			return key, msg
		})
	})
}

// onlyCase is the case id of a replay (-case / -replay), read from the command line so that replaying one case does not
// build the other 40 000 mutants.
var onlyCase string

func findOnlyCase() {
	for i, a := range os.Args {
		name, val, hasVal := strings.Cut(strings.TrimLeft(a, "-"), "=")
		if !strings.HasPrefix(a, "-") || (name != "case" && name != "replay") {
			continue
		}
		if !hasVal && i+1 < len(os.Args) {
			val = os.Args[i+1]
		}
		if name == "case" {
			onlyCase = val
			return
		}
		if data, err := os.ReadFile(val); err == nil {
			var doc struct {
				CaseID string `json:"case"`
			}
			if json.Unmarshal(data, &doc) == nil {
				onlyCase = doc.CaseID
			}
		}
	}
}

func main() {
	findOnlyCase()
	if !strings.Contains(strings.Join(os.Args[1:], " "), "-shard") {
		sweepScratch()
	}
	seq.Main(&seq.Config{
		Property: "C16",
		Level:    "exploration",
		Rule: "invalid side: for every base file (testdata/config_sample.yml and one minimal file per transform type, rewriter chain, matcher operator, orchestrator type, " +
			"output type/message mode, input, schema) every YAML node inside the base's focus is a site (mapping key, mapping value, sequence, sequence element, scalar); " +
			"at every site every kind of the fixed kind table is substituted, one mutation per case: key unknown/empty/null/number/upper-cased/deleted(section deleted)/duplicated/type-not-first; " +
			"mapping or sequence replaced by the other node kinds, emptied, nulled, wrapped, unwrapped, with unknown/null/empty/unknown-type elements appended or prepended; element deleted/duplicated; " +
			"scalar replaced by unknown name, empty, blank, null, mapping, sequence, 12 numbers (0, negative, 101, >int32, int64 extremes, out of int64 range, float, hex, bool), " +
			"7+14*names malformed/unknown/out-of-range templates, 33 malformed or boundary-less regex/glob/extract patterns (incl. unknown named capture), 22 malformed sizes/durations/addresses; " +
			"match expressions additionally with each of 14 operator tags (with the original and with an empty expression). " +
			"valid side: bounded grammar: 27 leaf transforms x {alone, ordered pairs, inside if/switch/block with each of 10 match expressions, two container levels} at the transformations and the extractions position, " +
			"4 orchestrators x 17 outputs (3 fluentd modes x 5 rewriter chains, 2 datadog). quick tier enumerates every second/third combination of the pair and depth-1 products, thorough all, and thorough lifts the focus restriction of the minimal bases. " +
			"every case: render to a file, run.ParseConfigFile must return; error => done; accepted => parser+extractions, transforms, serializers, chunk makers, forwarder objects built inline and 37 records x 2 rounds + 4 synthetic field fillings processed, " +
			"chunks decoded; then the configured orchestrator started with real pipelines and hybrid bufferers on a scratch root, records fed through a sink, inputs constructed and started on an ephemeral port, shutdown. " +
			"non-trivial = every mutant (all are well-formed YAML and reach the typed decoder and VerifyConfig); outcome/* groups count accepted vs rejected per kind family.",
		Assumptions: []string{
			"one mutation per case (single-site substitution); multi-site interactions only on the valid side",
			"whether an unknown name in hiddenFields, an odd but parseable upstream address, a negative duration or an unusable rootPath must be rejected is not documented: accepted or rejected are both fine as long as nothing panics",
			"buffer rootPath is re-rooted below a scratch directory and the listen address replaced by 127.0.0.1:0 before instantiation: file-system and port availability are not properties of the file",
			"the network forwarder is constructed but never started (consumer override acknowledges chunks), as in the repository's own integration tests",
			"defs.InputLogMaxMessageBytes is lowered to 128 KiB and defs.BufferMaxNumChunksInQueue to 2000 in the harness process to make buffer allocation cheap; menu records are < 40 KiB and a case produces a handful of chunks",
			"a panic on a pipeline goroutine kills the worker process; seq attributes it to the case in flight (key fatal:*)",
			"valid-side menus use only parameter values that appear in config_sample.yml comments or package tests (drop percentage 0 is documented as allowed by the sample comment but rejected by the code: not part of the menu)",
		},
		Enumerate:        enumerate,
		QuickDeadline:    110e9,
		ThoroughDeadline: 40 * 60e9,
	})
}
