// Command seq_config decides C16: accepted configurations always instantiate; rejected ones fail cleanly.
//
// Invalid side: every base file (sample configuration + one minimal file per transform, rewriter chain, matcher
// operator, orchestrator and output type) is parsed into a YAML node tree; every node in the focus of the base is a
// site; at every site every applicable kind of invalid value is substituted (one mutation per case); the mutant is
// rendered to a file and given to run.ParseConfigFile.
// Valid side: a bounded grammar of documented-valid configurations must be accepted.
// In both cases an accepted configuration is instantiated completely and fed the record menu.
package main

import (
	"encoding/json"
	"fmt"
	"io"
	"os"
	"runtime/pprof"
	"strings"
	"time"

	"github.com/relex/gotils/logger"
	"github.com/relex/slog-agent/defs"
	"gopkg.in/yaml.v3"

	"slogverif/seq"
)

var statsFile, violationLog *os.File

func setup() error {
	lowerLimits()
	if p := os.Getenv("C16_STATS"); p != "" {
		statsFile, _ = os.OpenFile(p, os.O_APPEND|os.O_CREATE|os.O_WRONLY, 0o644)
	}
	if p := os.Getenv("C16_VIOLATIONS"); p != "" {
		violationLog, _ = os.OpenFile(p, os.O_APPEND|os.O_CREATE|os.O_WRONLY, 0o644)
	}
	return loadRecordMenu()
}

// lowerLimits: silence + the in-process size parameters (worker and loader helper process alike)
func lowerLimits() {
	logger.SetOutput(io.Discard)
	logger.SetLogLevel(logger.ErrorLevel)
	// smaller per-object buffers (serializer: 2x record limit, addFields: message limit): the record menu stays far
	// below these limits, construction of thousands of pipelines gets much cheaper
	defs.InputLogMaxMessageBytes = 128 * 1024
	defs.InputLogMaxRecordBytes = defs.InputLogMaxMessageBytes + 256
	defs.ListenerLineBufferSize = defs.InputLogMaxRecordBytes * 4
	// the queue of a hybrid bufferer is a Go channel of this capacity (24 MB zeroed per bufferer at the default)
	defs.BufferMaxNumChunksInQueue = 2000
}

// pairKind: the kinds used for two-site mutants
func pairKind(kind string) bool {
	switch kind {
	case "key-unknown", "key-deleted", "key-duplicated", "unknown-name", "empty", "null", "to-mapping", "to-sequence",
		"map-empty", "map-null", "seq-empty", "seq-null", "seq-append-null", "seq-append-unknown", "element-deleted", "element-duplicated",
		"num:0", "num:9223372036854775807", "num:99999999999999999999", "tmpl:${task[-99999999999999999999:]}", "tmpl:$zzUnknown", "pat:(", "pat:*", "pat:(?P<zzUnknown>.)":
		return true
	}
	return false
}

// caseLogged is ctx.Case plus the debug list of every violating case (C16_VIOLATIONS=file: "key<TAB>case id" per line;
// the evidence keeps only the first case of a key).
func caseLogged(ctx *seq.Ctx, id string, nontrivial bool, input string, run func() (string, string)) {
	ctx.Case(id, nontrivial, input, func() (string, string) {
		key, msg := run()
		if key != "" && violationLog != nil {
			fmt.Fprintf(violationLog, "%s\t%s\n", key, id)
		}
		return key, msg
	})
}

func bump(ctx *seq.Ctx, name string) {
	if ctx.Groups != nil {
		ctx.Groups[name]++
	}
}

func enumerate(ctx *seq.Ctx) {
	if err := setup(); err != nil {
		caseLogged(ctx, "setup", false, "", func() (string, string) { return "harness:setup", err.Error() })
		return
	}
	defer removeScratch()
	defer stopHelper()
	bases, err := allBases()
	if err != nil {
		caseLogged(ctx, "setup", false, "", func() (string, string) { return "harness:setup", err.Error() })
		return
	}
	opt := evalOptions{orchestrate: true, listen: true, twoTags: true}
	// bases, the valid side and the new groups: also the limit-size records of the big menu, and phase C (real forwarders
	// as the pipeline assembles them + a restart on the queue directories they leave)
	full := opt
	full.bigMenu, full.real = true, true
	// quick tier: a mutant inside a transform list is instantiated inline only (the pipelines of phase B call exactly
	// the same constructors); everything else, and everything in the thorough tier, also goes through phase B
	optFor := func(path string) evalOptions {
		o := opt
		if !ctx.Thorough() {
			o.twoTags = false
			if strings.Contains(path, ":transformations/") || strings.Contains(path, "/extractions/") {
				o.orchestrate, o.listen = false, false
			}
		}
		return o
	}

	// ---- documents that are no configuration at all
	ctx.Group("document")
	for _, d := range []struct{ id, text string }{
		{"doc/empty", ""}, {"doc/null", "~\n"}, {"doc/scalar", "zzUnknown\n"}, {"doc/sequence", "- a\n- b\n"}, {"doc/empty-map", "{}\n"},
		{"doc/number", "99999999999999999999\n"}, {"doc/two-documents", "a: 1\n---\nb: 2\n"}, {"doc/not-yaml", "a: [1, 2\n"}, {"doc/tab", "a:\n\tb: 1\n"},
		{"doc/binary", "\x00\x01\x02\xff"}, {"doc/alias-loop", "a: &a [*a]\n"}, {"doc/unknown-alias", "schema: *nowhere\n"},
	} {
		d := d
		caseLogged(ctx, d.id, true, d.text, func() (string, string) {
			outcome, key, msg := evaluate(d.text, "", opt)
			bump(ctx, "outcome/document/"+outcome)
			if outcome == outAccepted {
				return "accepted:not-a-configuration", "a document that is no configuration was accepted"
			}
			return key, msg
		})
	}

	// ---- pairs of configurations: reload (old -> new through run.Reloader) and restart (new started on what old left).
	// Early in the enumeration: a panic on a pipeline goroutine after a reload ends the worker process, and seq cannot
	// recover what a dead worker had evaluated before.
	enumeratePairs(ctx)

	// ---- invalid side
	seenText := map[string]bool{}
	for bi := range bases {
		if ctx.Stop() {
			return
		}
		if os.Getenv("C16_SKIP_INVALID") != "" {
			break // debug only: try the groups behind the (large) invalid side on their own
		}
		b := &bases[bi]
		root, perr := parseYAML(b.text)
		ctx.Group("base/" + b.family)
		caseLogged(ctx, "base/"+b.name, true, b.text, func() (string, string) {
			if perr != nil {
				return "harness:base-yaml", perr.Error()
			}
			outcome, key, msg := evaluate(b.text, "", full)
			bump(ctx, "outcome/base/"+outcome)
			if outcome == outRejected {
				_, _, _, err := parseOnly(b.text)
				return "valid-rejected:base", fmt.Sprintf("base file %s (the sample configuration, or a minimal file made of parts of it) is rejected: %v", b.name, err)
			}
			return key, msg
		})
		if perr != nil {
			continue
		}
		caseLogged(ctx, "base/"+b.name+"/roundtrip", true, b.text, func() (string, string) {
			text, err := renderYAML(root)
			if err != nil {
				return "harness:render", err.Error()
			}
			outcome, key, msg := evaluate(text, "", full)
			bump(ctx, "outcome/base/"+outcome)
			if outcome == outRejected {
				_, _, _, err := parseOnly(text)
				return "harness:roundtrip-rejected", fmt.Sprintf("base file %s re-rendered from its node tree is rejected: %v", b.name, err)
			}
			return key, msg
		})
		runMutant := func(group string, id string, m mutant, nilHolder func() string) {
			if stop := ctx.Stop(); m.doc == nil || stop {
				ctx.Skip()
				return
			}
			ctx.Group(group)
			text, rerr := renderYAML(m.doc)
			caseLogged(ctx, id, true, text, func() (string, string) {
				if rerr != nil {
					return "harness:render", rerr.Error()
				}
				var check yaml.Node
				if err := yaml.Unmarshal([]byte(text), &check); err != nil {
					return "harness:render-invalid-yaml", err.Error()
				}
				outcome, key, msg := evaluate(text, nilHolder(), optFor(id))
				bump(ctx, "outcome/"+m.family+"/"+outcome)
				if statsFile != nil {
					fmt.Fprintf(statsFile, "%s\t%s\t%s\t%s\t%s\n", b.name, m.leaf, m.id[strings.LastIndex(m.id, "|")+1:], outcome, key)
				}
				return key, msg
			})
		}
		eb := *b
		if ctx.Thorough() && b.name != "sample" && !seenText[b.text] {
			eb.focus = nil // thorough: every node of every distinct minimal base, not only the part the base was written for
		}
		seenText[b.text] = true
		if !ctx.Thorough() && (b.name == "out-fluentd-Forward" || b.name == "out-fluentd-PackedForward") {
			eb.focus = []string{"outputBufferPairs/[0]/output/messageMode", "outputBufferPairs/[0]/output/type"}
		}
		enumerateMutants(&eb, root, !ctx.Thorough(), nil, func(id string) bool { return ctx.Mine() && (onlyCase == "" || onlyCase == b.name+"|"+id) }, func(m mutant) {
			runMutant("mutant/"+b.family+"/"+m.family, b.name+"|"+m.id, m, func() string { return firstNilHolder(m.doc) })
		})

		// thorough: two mutations at once, structural kinds only, inside the focus of the minimal transform / matcher /
		// rewriter / orchestrator bases
		if ctx.Thorough() && b.name != "sample" && len(b.focus) > 0 && b.family != "schema" && b.family != "input" && b.family != "output" {
			enumerateMutants(b, root, false, pairKind, func(string) bool { return true }, func(m1 mutant) {
				b2 := *b
				enumerateMutants(&b2, m1.doc, false, pairKind, func(id2 string) bool {
					return ctx.Mine() && (onlyCase == "" || onlyCase == b.name+"|"+m1.id+"||"+id2)
				}, func(m2 mutant) {
					m2.family = "pair"
					runMutant("mutant2/"+b.family, b.name+"|"+m1.id+"||"+m2.id, m2, func() string { return firstNilHolder(m2.doc) })
				})
			})
		}
	}

	// ---- valid side
	ctx.Group("valid")
	enumerateValid(ctx.Thorough(), func(id string) bool { return ctx.Mine() && (onlyCase == "" || onlyCase == "valid/"+id) }, func(v validCase) {
		if stop := ctx.Stop(); v.text == "" || stop {
			ctx.Skip()
			return
		}
		grp := v.id
		if i := strings.Index(grp, "/"); i > 0 {
			grp = grp[:i]
		}
		ctx.Group("valid/" + grp)
		caseLogged(ctx, "valid/"+v.id, true, v.text, func() (string, string) {
			vopt := opt
			vopt.bigMenu = true
			structural := grp == "leaf" || grp == "orch-out" || grp == "two-out" || grp == "amplify"
			if !ctx.Thorough() && !structural {
				vopt.orchestrate, vopt.listen = false, false
			}
			vopt.real = grp == "orch-out" || grp == "two-out" || (ctx.Thorough() && structural)
			outcome, key, msg := evaluate(v.text, "", vopt)
			bump(ctx, "outcome/valid/"+outcome)
			if outcome == outRejected {
				_, _, _, err := parseOnly(v.text)
				return "valid-rejected:" + grp, fmt.Sprintf("a configuration built only from documented-valid parts was rejected: %v", err)
			}
			return key, msg
		})
	})
	// field roles of the fluentdForward serializer: every subset of {environment, hidden, rewritten} for each of two
	// fields (64 combinations). Each list entry is valid on its own; the combination may be accepted or rejected by the
	// loader, but what it accepts must instantiate and process records (two sites that each look fine alone).
	ctx.Group("roles/fluentd-field-roles")
	roleFields := []string{"log", "host"}
	for ra := 0; ra < 8; ra++ {
		for rb := 0; rb < 8; rb++ {
			roles := []int{ra, rb}
			env, hidden, rewrite := []string{"app"}, []string{"pid"}, ""
			for i, f := range roleFields {
				if roles[i]&1 != 0 {
					env = append(env, f)
				}
				if roles[i]&2 != 0 {
					hidden = append(hidden, f)
				}
				if roles[i]&4 != 0 {
					rewrite += "    " + f + ":\n      - type: unescape\n"
				}
			}
			outYAML := "\ntype: fluentdForward\nserialization:\n  environmentFields: [" + strings.Join(env, ", ") + "]\n  hiddenFields: [" + strings.Join(hidden, ", ") + "]\n"
			if rewrite != "" {
				outYAML += "  rewriteFields:\n" + rewrite
			}
			outYAML += "messageMode: PackedForward\nupstream:\n  address: localhost:24224\n  tls: false\n  secret: guess\n  maxDuration: 30m\n"
			text := skeleton(parts{output: outYAML})
			id := fmt.Sprintf("roles/log=%d/host=%d", ra, rb)
			caseLogged(ctx, id, true, text, func() (string, string) {
				ropt := opt
				ropt.real = ctx.Thorough()
				outcome, key, msg := evaluate(text, "", ropt)
				bump(ctx, "outcome/roles/"+outcome)
				if outcome == outRejected {
					return "", ""
				}
				return key, msg
			})
		}
	}
	// orchestration keys x metricKeys: every non-empty subset of three fields as key set against every subset of three fields
	// as metric keys (56 combinations, overlapping ones included). Each entry is valid alone; what the loader accepts must
	// instantiate and process records (label names must stay unique).
	ctx.Group("roles/keys-vs-metrickeys")
	keyFields := []string{"app", "level", "host"}
	metricFields := []string{"host", "app", "source"}
	for km := 1; km < 8; km++ {
		for mm := 0; mm < 8; mm++ {
			var keys, mkeys, tagParts []string
			for i, f := range keyFields {
				if km&(1<<uint(i)) != 0 {
					keys = append(keys, f)
					tagParts = append(tagParts, "$"+f)
				}
			}
			for i, f := range metricFields {
				if mm&(1<<uint(i)) != 0 {
					mkeys = append(mkeys, f)
				}
			}
			orch := "type: byKeySet\nkeys: [" + strings.Join(keys, ", ") + "]\ntag: t." + strings.Join(tagParts, ".") + "\n"
			text := skeleton(parts{orchestration: orch, metricKeys: "[" + strings.Join(mkeys, ", ") + "]"})
			id := fmt.Sprintf("roles/keys=%d/metricKeys=%d", km, mm)
			caseLogged(ctx, id, true, text, func() (string, string) {
				ropt := opt
				ropt.real = ctx.Thorough()
				outcome, key, msg := evaluate(text, "", ropt)
				bump(ctx, "outcome/roles-keys/"+outcome)
				if outcome == outRejected {
					return "", ""
				}
				return key, msg
			})
		}
	}

	// ---- consistent rename of one schema field (declaration + every reference) to each name of the menu
	for _, b := range renameBases() {
		root, perr := parseYAML(b.text)
		ctx.Group("rename/" + b.name)
		caseLogged(ctx, "rename/"+b.name+"/unchanged", true, b.text, func() (string, string) {
			if perr != nil {
				return "harness:base-yaml", perr.Error()
			}
			outcome, key, msg := evaluate(b.text, "", full)
			bump(ctx, "outcome/rename/"+outcome)
			if outcome == outRejected {
				_, _, _, err := parseOnly(b.text)
				return "valid-rejected:base", fmt.Sprintf("base file %s is rejected: %v", b.name, err)
			}
			return key, msg
		})
		if perr != nil {
			continue
		}
		for _, field := range schemaFields(root) {
			if syslogRequiredFields[field] {
				continue
			}
			for _, nn := range renameMenu {
				if ctx.Stop() {
					return
				}
				if !ctx.Thorough() && nn.id == "len70000" && field != "class" {
					continue // quick: the str32 name once per base
				}
				id := "rename/" + b.name + "/" + field + "->" + nn.id
				if !(ctx.Mine() && (onlyCase == "" || onlyCase == id)) {
					ctx.Skip()
					continue
				}
				text, rerr := renderYAML(renameField(root, field, nn.name))
				caseLogged(ctx, id, true, text, func() (string, string) {
					if rerr != nil {
						return "harness:render", rerr.Error()
					}
					var check yaml.Node
					if err := yaml.Unmarshal([]byte(text), &check); err != nil {
						return "harness:render-invalid-yaml", err.Error()
					}
					ropt := opt
					ropt.real = ctx.Thorough()
					outcome, key, msg := evaluate(text, "", ropt)
					bump(ctx, "outcome/rename/"+outcome)
					return key, msg
				})
			}
		}
	}

	// ---- byte-class sweep at the role positions of patterns, templates and the tag
	enumerateSweep(ctx.Thorough(), func(id string) bool { return ctx.Mine() && (onlyCase == "" || onlyCase == id) }, func(id, text string, orchestrate bool) {
		if stop := ctx.Stop(); text == "" || stop {
			ctx.Skip()
			return
		}
		ctx.Group(id[:strings.LastIndex(id, "/")])
		caseLogged(ctx, id, true, text, func() (string, string) {
			sopt := opt
			sopt.orchestrate, sopt.listen, sopt.twoTags = orchestrate, false, false
			outcome, key, msg := evaluate(text, "", sopt)
			bump(ctx, "outcome/sweep/"+outcome)
			return key, msg
		})
	})

}

// onlyCase is the case id of a replay (-case / -replay), read from the command line so that replaying one case does not
// build the other 40 000 mutants.
var onlyCase string

func findOnlyCase() {
	for i, a := range os.Args {
		name, val, hasVal := strings.Cut(strings.TrimLeft(a, "-"), "=")
		if !strings.HasPrefix(a, "-") || (name != "case" && name != "replay") {
			continue
		}
		if !hasVal && i+1 < len(os.Args) {
			val = os.Args[i+1]
		}
		if name == "case" {
			onlyCase = val
			return
		}
		if data, err := os.ReadFile(val); err == nil {
			var doc struct {
				CaseID string `json:"case"`
			}
			if json.Unmarshal(data, &doc) == nil {
				onlyCase = doc.CaseID
			}
		}
	}
}

func main() {
	if os.Getenv(loaderChild) != "" {
		loaderChildMain()
		return
	}
	if os.Getenv("C16_TRACE") != "" {
		t0 := time.Now()
		fmt.Fprintf(os.Stderr, "trace main start\n")
		defer func() { fmt.Fprintf(os.Stderr, "trace main end %v\n", time.Since(t0)) }()
	}
	if p := os.Getenv("C16_PROF"); p != "" && strings.Contains(strings.Join(os.Args[1:], " "), "-shard") {
		f, _ := os.Create(p)
		pprof.StartCPUProfile(f)
		defer pprof.StopCPUProfile()
	}
	findOnlyCase()
	nMini, nSmall := 0, 0
	if err := loadRecordMenu(); err == nil {
		nSmall = len(smallMenu())
	}
	if bases, err := allBases(); err == nil {
		nMini = len(bases) - 1
	}
	if !strings.Contains(strings.Join(os.Args[1:], " "), "-shard") {
		sweepScratch()
	}
	seq.Main(&seq.Config{
		Property: "C16",
		Level:    "exploration",
		Rule: fmt.Sprintf("invalid side: for every base file (testdata/config_sample.yml and %d minimal files: one per transform type, matcher operator, rewriter chain, orchestrator type, "+
			"output type/message mode, input, schema) every YAML node inside the base's focus is a site (mapping key, mapping value, sequence, sequence element, scalar); "+
			"at every site every applicable kind of the fixed kind table is substituted, one mutation per case: key unknown/empty/null/number/upper-cased/deleted(=section deleted)/duplicated/type-not-first; "+
			"mapping or sequence replaced by the other node kinds, emptied, nulled, wrapped, unwrapped, with unknown/null/empty/unknown-type elements appended or prepended; element deleted/duplicated; "+
			"scalar replaced by unknown name, empty, blank, null, mapping, sequence, 12 numbers (0, negative, 101, >int32, int64 extremes, out of int64 range, float, hex, bool), "+
			"7+14*names malformed/unknown-variable/out-of-range-slice templates, 33 malformed or boundary-less regex/glob/extract patterns (incl. unknown named capture), 22 malformed sizes/durations/addresses; "+
			"match expressions additionally with each of 14 operator tags (with the original and with an empty expression). quick: scalar families restricted by leaf role (enumerations and free string lists: generic kinds only; "+
			"schema-field references: generic+number+template), Forward/PackedForward bases only at messageMode/type; thorough: every kind at every scalar, focus lifted for every distinct minimal base, "+
			"plus two-site mutants (24 structural kinds squared) inside the focus of the transform/matcher/rewriter/orchestrator minimal bases. "+
			"valid side: bounded grammar: %d leaf transforms x {alone, ordered pairs, inside if/switch/block with each of %d match expressions, two container levels} at the transformations and the extractions position, "+
			"4 orchestrators x 17 outputs (3 fluentd modes x 5 rewriter chains, 2 datadog); quick enumerates every third pair and every second depth-1 combination, thorough all. "+
			"every case: render to a file, run.ParseConfigFile must return; error => done; accepted => parser+extractions, transforms, serializers, chunk makers, forwarder objects built inline and %d records (+%d on a second round) + 5 synthetic field fillings x 2 processed, "+
			"chunks decoded; then (quick: except for mutants inside a transform list) the configured orchestrator started with real pipelines and hybrid bufferers on a scratch root, %d records fed through a sink, inputs constructed and started on an ephemeral port, shutdown. "+
			"scalar kinds also include 3 explicit !!binary scalars (0xFF, '[a-\\xff]', 0x80 0x80 0x80: bytes YAML text cannot carry). "+
			"further groups: rename/ - one non-required schema field of the sample file and of two minimal role files (orchestration key, metric key, extract destination, environment/hidden/inlined field, matcher key; second file: also named captures and template variables) "+
			"renamed at its declaration and every reference to each of %d names (no Prometheus label names, msgpack key length classes 15/16/31/32/300/70000, names the agent uses itself); "+
			"sweep/ - each of the 256 byte values at 7 (thorough 15) role positions of extract patterns (range start/end, boundaries, listed, escaped), templates (variable, braced name, literal, slice bound), tag, suffix, replacement, metric label; "+
			"valid/two-out - ordered pairs of outputs in one pipeline under 2 (thorough 4) orchestrators; valid/amplify - %d amplifying transformation lists (1x-4x copies of $log into log / other / environment fields) x 17 outputs; "+
			"reload/ and restart/ - 3 pair bases (byKeySet 1 key + Fluentd; byKeySet 2 keys + Fluentd + Datadog; singleton + Datadog) x %d edits (schema: field appended / removed / moved, maxFields; outputs: appended, prepended, removed, reversed, type, name; "+
			"metricKeys; orchestration type, keys appended / prepended / removed / reversed / replaced, tag; inputs: extraction, address, levelMapping; transformations; not a configuration; no outputs) x both directions: "+
			"reload = old configuration running through run.NewReloaderFromConfigFile with real pipelines and forwarders, records, file rewritten, Reloader.initiateDownstreamReload + ReloadableOrchestrator.reload, records of the OLD parser/allocator, shutdown; "+
			"restart = old started with real forwarders (unreachable upstream: chunks stay in the queue directories, key values incl. empty, ',', '%%', '%%2C'), new started on the same buffer roots. "+
			"every load goes through a helper process first (stall guard: loader-does-not-return after 2000 own-clock ticks and 2 s of CPU, or 20000 ticks); record menu + one record at the message limit (bases, valid side: + escape-heavy and over-limit records); "+
			"phase A builds the forwarders of two pipelines on one metric creator per pipeline with the output label; bases, valid/orch-out, valid/two-out (thorough: all valid-side and role cases) additionally run phase C: orchestrator with the REAL forwarders (unreachable upstream), shutdown, restart on the queue directories left. "+
			"inputs are constructed on the configured host; a well-formed port is replaced by 0, a repeated address gets the port of its first occurrence. "+
			"non-trivial = every case (all mutants are well-formed YAML and reach the typed decoder and VerifyConfig); outcome/* groups count accepted vs rejected vs violation per kind family.",
			nMini, len(validLeaves), len(validMatches), len(recordMenu), nSmall, nSmall, len(renameMenu), len(amplifiers), len(pairEdits)),
		Assumptions: []string{
			"one mutation per case (single-site substitution) in quick; two-site only for structural kinds on the minimal bases in thorough; multi-site interactions otherwise only on the valid side",
			"whether an unknown name in hiddenFields, a missing inputs section, an odd but parseable upstream address, a negative duration, an empty output name or an unusable rootPath must be rejected is not documented: accepted or rejected are both fine as long as nothing panics",
			"buffer rootPath is re-rooted below a scratch directory; the listen HOST is kept, a well-formed port number is replaced by 0 (whether a particular port is free is not a property of the file; whether the address can be listened on at all, and whether two inputs can both be constructed, is); failures caused by name resolution or a missing address family are the environment's and tolerated",
			"phase B: consumer override that acknowledges chunks (no network), as in the repository's own integration tests; phase C, reload/ and restart/: the configured forwarders, upstream replaced by 127.0.0.1:1 (nothing listens: refused at once; network reachability is not a property of the file)",
			"defs.InputLogMaxMessageBytes is lowered to 128 KiB and defs.BufferMaxNumChunksInQueue to 2000 in the harness process to make buffer allocation cheap; all size relations of the agent (record limit = message limit + 256, serializer buffer = 2 x record limit) scale with it, the limit-size records are built from the lowered value",
			"a loader that does not return is judged by this process's own 5 ms tick count plus the CPU time the loading process has consumed, never by wall time; the seq watchdog (5 min without progress) stays behind it",
			"reload oracle from the 'Reload restrictions' and schema comments of config_sample.yml: an unchanged file, an appended field and changed metricKeys must not be refused; for every other edit the reload may be accepted or refused, but nothing may panic and a refused reload leaves the old pipelines working; mis-assigned field values after an accepted reload are not judged (C16 is about crashes)",
			"the shape of field names is not documented: a renamed field may be accepted or rejected; the nine fields the sample file documents as required by the syslog input are not renamed",
			"run.(*Reloader).initiateDownstreamReload and run.(*ReloadableOrchestrator).reload are unexported: reached through go:linkname declarations in link.go (no build overlay)",
			"schema/maxFields above 2^20 is not instantiated (16 bytes x maxFields per record): acceptance of such a value is reported as accepted-unbounded:schema.maxFields",
			"a panic on a pipeline goroutine kills the worker process; seq attributes it to the case in flight (key fatal:*)",
			"valid-side menus use only parameter values that appear in config_sample.yml comments or package tests (drop percentage 0 is documented as allowed by the sample comment but rejected by the code: not part of the menu)",
		},
		Enumerate:        enumerate,
		QuickDeadline:    20 * 60e9, // a safety net only (machine load must not cut coverage); the tier is sized for <= 2 minutes
		ThoroughDeadline: 40 * 60e9,
	})
}
