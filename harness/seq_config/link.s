// intentionally empty: allows the body-less go:linkname declarations in link.go
