package main

// Consistent rename: the SHAPE of a schema field name is a multi-site property (declared once, referenced by keys,
// templates, captures, role lists); a single-site substitution always breaks the reference. Here one field of a base
// is renamed at its declaration and at every reference to each name of a menu. The documentation says nothing about
// the shape of field names, so the loader may accept or reject; what it accepts must instantiate and process records.

import (
	"os"
	"regexp"
	"strings"

	"gopkg.in/yaml.v3"
)

// renameMenu: names that are no Prometheus label names (the agent derives metric labels from key fields), names at
// the msgpack length classes of the pre-encoded keys (fixstr < 32 in the agent's encoder < 16, str16), names that
// collide with the labels and output keys the agent adds itself.
var renameMenu = []struct{ id, name string }{
	{"hyphen", "my-field"}, {"dot", "a.b"}, {"leading-digit", "0abc"}, {"non-ascii", "ü"}, {"blank-inside", "a b"}, {"colon", "a:b"},
	{"slash", "a/b"}, {"dollar", "a$b"}, {"brace", "a}b"}, {"quote", "a\"b"}, {"upper", "FIELD"}, {"underscores", "__name__"},
	{"len15", strings.Repeat("n", 15)}, {"len16", strings.Repeat("n", 16)}, {"len31", strings.Repeat("n", 31)}, {"len32", strings.Repeat("n", 32)},
	{"len300", strings.Repeat("n", 300)}, {"len70000", strings.Repeat("n", 70000)},
	{"key", "key"}, {"label", "label"}, {"output", "output"}, {"orchestrator", "orchestrator"}, {"protocol", "protocol"},
	{"environment", "environment"}, {"timestamp", "timestamp"}, {"ddtags", "ddtags"}, {"le", "le"},
}

// syslogRequiredFields: "Required fields for syslog input" (config_sample.yml); the parser looks them up by these names,
// so they cannot be renamed
var syslogRequiredFields = map[string]bool{"facility": true, "level": true, "time": true, "host": true, "app": true, "pid": true, "source": true, "extradata": true, "log": true}

// renameBases: the sample configuration, and two minimal files in which every role a field name can play is played by
// one of the three fields that are not required by the syslog input. "roles": orchestration key (vhost), metric key
// (task), destination of extractHead/extractTail, environment field, inlined field and matcher key (class), hidden field
// (task) - none of them inside a template or a regular expression, whose grammars only know \w names; "roles-templates":
// the same plus named captures (class, task) and template variables (tag: vhost; addFields: class, task).
func renameBases() []baseFile {
	sample, _ := os.ReadFile(sampleConfigPath)
	output := "\ntype: fluentdForward\nserialization:\n  environmentFields: [host, class]\n  hiddenFields: [pid, task]\n  rewriteFields:\n    log:\n      - type: inline\n        field: class\n      - type: unescape\n" +
		"messageMode: CompressedPackedForward\nupstream:\n  address: localhost:24224\n  tls: false\n  secret: guess\n  maxDuration: 30m\n"
	extract := "- type: extract\n  key: source\n  pattern: ^(?P<class>[^:]+):(?P<task>.*)$\n"
	cond := "- type: if\n  match:\n    class: !!str-any\n  then:\n    - type: delFields\n      keys: [extradata]\n"
	return []baseFile{
		{name: "sample", text: string(sample)},
		{name: "roles", text: skeleton(parts{
			orchestration: "type: byKeySet\nkeys: [vhost]\ntag: development.mini\n", metricKeys: "[task]",
			transforms: "- type: extractTail\n  key: source\n  pattern: :[0-9a-f-]\n  maxLen: 41\n  destKey: task\n- type: extractHead\n  key: log\n  pattern: '\\[*\\] - '\n  maxLen: 100\n  destKey: class\n" + cond,
			output: output,
		})},
		{name: "roles-templates", text: skeleton(parts{
			orchestration: "type: byKeySet\nkeys: [vhost]\ntag: development.$vhost\n", metricKeys: "[task]",
			transforms: extract + "- type: addFields\n  fields:\n    task: t-$class-${task[:4]}\n" + cond, output: output,
		})},
	}
}

func schemaFields(root *yaml.Node) []string {
	schema, ok := mapGet(root.Content[0], "schema")
	if !ok {
		return nil
	}
	fields, ok := mapGet(schema, "fields")
	if !ok || fields.Kind != yaml.SequenceNode {
		return nil
	}
	var names []string
	for _, f := range fields.Content {
		names = append(names, f.Value)
	}
	return names
}

// renameField returns a copy of the document in which field `from` is called `to` everywhere: scalars equal to the name
// (list entries, values of key/destKey/field, keys of match/fields/rewriteFields maps), $from / ${from...} in templates,
// (?P<from>...) in patterns.
func renameField(root *yaml.Node, from, to string) *yaml.Node {
	doc := cloneNode(root)
	plainVar := regexp.MustCompile(`\$` + regexp.QuoteMeta(from) + `\b`)
	bracedVar := regexp.MustCompile(`\$\{` + regexp.QuoteMeta(from) + `\b`)
	capture := "(?P<" + from + ">"
	var walk func(n *yaml.Node, isKey bool, parentKey string)
	walk = func(n *yaml.Node, isKey bool, parentKey string) {
		switch n.Kind {
		case yaml.ScalarNode:
			if n.ShortTag() == "!!null" {
				return
			}
			if n.Value == from && !(isKey && !userKeyed[parentKey]) {
				n.Value = to
				if customTag(n) == "" {
					n.Tag, n.Style = "!!str", 0
				}
				return
			}
			if isKey {
				return
			}
			v := n.Value
			v = bracedVar.ReplaceAllLiteralString(v, "${"+to)
			v = plainVar.ReplaceAllLiteralString(v, "${"+to+"}")
			v = strings.ReplaceAll(v, capture, "(?P<"+to+">")
			if v != n.Value {
				n.Value = v
				if customTag(n) == "" {
					n.Tag, n.Style = "!!str", 0
				}
			}
		case yaml.MappingNode:
			for i := 0; i+1 < len(n.Content); i += 2 {
				walk(n.Content[i], true, parentKey)
				walk(n.Content[i+1], false, n.Content[i].Value)
			}
		default:
			for _, c := range n.Content {
				walk(c, false, parentKey)
			}
		}
	}
	walk(doc, false, "")
	return doc
}
