package main

import (
	"bytes"
	"fmt"
	"os"
	"regexp"
	"strings"

	"github.com/relex/slog-agent/defs"
)

// recordMenu is the fixed set of syslog records pushed through every accepted configuration: the development inputs
// of the repository (multi-line records kept whole) plus hand-written records that reach the branches of the sample
// configuration and records whose optional fields are empty (NIL "-").
var recordMenu []string

var recordStart = regexp.MustCompile(`^<[0-9]{1,3}>1 `)

const testdataDir = "/repo/testdata/development"

var syntheticRecords = []string{
	// every optional header field NIL
	`<163>1 2019-08-15T15:50:46.866915+03:00 - - - - - plain message without any label`,
	// empty message
	`<13>1 2020-09-17T16:51:47.867Z somehost someapp 1 somesource - `,
	// no sub-second part, no vhost, no task, a class label
	`<14>1 2020-09-17T16:51:47Z somehost someapp 1234 file.log - [SomeClass] - message body user=first.last@example.com`,
	// app=abandoned branch of the sample: addFields + unescape + replace
	`<14>1 2020-09-17T16:51:47.867Z somehost abandoned/v.example.com 12 app.log:00ff00ff - PUT "/notes/1", status=200 line1\nline2\ttab params={"a":"0123456789012345678901234567890123456789012345678901234567890123456789012345678901234567890123456789012345678901234567890123456789012345678901234567890123456789012345678901234567890123456789"}`,
	// the "Match Operators" case of the sample: kern, not notice, time 2020/, host *.com, app *server*, vhost glob, log regex, pid len>5, source len<2, task any
	`<4>1 2020/01/01 myhost.com server/api.x.com 123456 s:abc - POST /operators`,
	// appServ + auth.log (drop 100%), appServ + errors/main.log/warn (drop 33%)
	`<166>1 2022-08-15T09:56:15.001+02:00 basic-2 appServ/bar.com 1240 auth.log [@1] Logged out user=demoUser`,
	`<164>1 2022-08-15T12:14:59.855+02:00 errors appServ/bar.com 123 main.log - [JCmd] - short warning one`,
	`<164>1 2022-08-15T12:14:59.855+02:00 errors appServ/bar.com 123 main.log - [JCmd] - short warning two`,
	`<164>1 2022-08-15T12:14:59.855+02:00 errors appServ/bar.com 123 main.log - [JCmd] - short warning three`,
	`<164>1 2022-08-15T12:14:59.855+02:00 errors appServ/bar.com 123 main.log - [JCmd] - short warning four`,
	// every field starts and ends with "abc" (boundary-only extraction patterns such as 'abc*' or '*abc' match)
	`<14>1 2020-09-17T16:51:47.867Z abc.example.abc abc.app/abc.vhost.abc abc9abc abc.log.abc - abc message abc`,
	// non-ASCII text, long enough to be truncated by the access.log rule
	`<164>1 2022-08-15T11:17:08.001+02:00 basic-2 appServ/bar.com 1240 access.log [@1] POST "/dätä/quéry", status=200 params={"ключ":"значение значение значение значение значение значение значение значение значение значение значение значение значение значение значение значение значение"}`,
}

func loadRecordMenu() error {
	recordMenu = nil
	for _, name := range []string{"basic-1-input.log", "basic-2-input.log", "errors-input.log"} {
		data, err := os.ReadFile(testdataDir + "/" + name)
		if err != nil {
			return err
		}
		var cur []byte
		flush := func() {
			if len(cur) > 0 {
				recordMenu = append(recordMenu, string(bytes.TrimRight(cur, "\n")))
			}
			cur = nil
		}
		for _, line := range bytes.SplitAfter(data, []byte("\n")) {
			if len(line) == 0 {
				continue
			}
			if recordStart.Match(line) {
				flush()
			}
			cur = append(cur, line...)
		}
		flush()
	}
	if len(recordMenu) < 20 {
		return fmt.Errorf("only %d records found under %s", len(recordMenu), testdataDir)
	}
	recordMenu = append(recordMenu, syntheticRecords...)
	buildBigRecords()
	recordMenu = append(recordMenu, bigRecords[0])
	return nil
}

// bigRecords: records at the documented input limit (defs.InputLogMaxMessageBytes for the message, as lowered by setup).
// [0] is part of every menu: a message of exactly the limit (class label, request line, e-mail address, plain words).
// [1:] (bases, valid side and the amplification group only): a limit-size message made of escape sequences, quotes,
// control characters and non-ASCII text; a message above the limit (cut by the parser).
var bigRecords []string

const bigHeader = `<14>1 2020-09-17T16:51:47.867Z somehost someapp/v.example.com 1234 file.log:00ff - `

func fillTo(prefix, unit string, n int) string {
	var b strings.Builder
	b.Grow(n + len(unit))
	b.WriteString(prefix)
	for b.Len() < n {
		b.WriteString(unit)
	}
	return b.String()[:n]
}

func buildBigRecords() {
	limit := defs.InputLogMaxMessageBytes
	bigRecords = []string{
		bigHeader + fillTo(`[BigClass] - POST "/big", status=200 user=first.last@example.com params=`, "0123456789abcdef ghij ", limit),
		bigHeader + fillTo("", "\\n\\t\"quoted\" \\\\ back\\b \x01\x7f d\u00e4t\u00e4 ", limit),
		bigHeader + fillTo("[Over] - ", "over the limit ", limit+1000),
	}
}
