// Command seq_agent decides C18 and the stop clause of C01 at the level of the WHOLE agent: every case runs the shipped
// top-level function run.Run(configFile, metricAddress, allowReload) in-process, on real loopback sockets and real threads,
// with real upstreams (the fluentlib forward server with a MessageCollector, a small HTTP server for the Datadog output, a
// port where nothing listens, a listener that accepts, reads and never answers), and stops it the way production does: by
// sending SIGTERM to the own process (run.Run registers signal.Notify itself). Nothing of the stop sequence is re-implemented
// by the harness: shutdownInputs(), Orchestrator.Shutdown(), the listener, the concrete connection types and the order between
// them are the shipped ones.
//
// What is enumerated exhaustively is the product inputs x output kind x upstream condition x traffic shape at the stop (see
// Rule); the thread schedules are whatever the runtime produces. There is no wall-clock verdict: a case waits without
// timeout, a case that never completes is reported by the stalled-case watchdog of seq, and a panic in any goroutine of the
// agent kills the worker process and is attributed to the case in flight.
package main

import (
	"bytes"
	"compress/gzip"
	"context"
	"encoding/json"
	"flag"
	"fmt"
	"io"
	"log"
	"net"
	"net/http"
	"os"
	"os/signal"
	"path/filepath"
	"strconv"
	"strings"
	"sync"
	"syscall"
	"time"

	"github.com/relex/fluentlib/server"
	"github.com/relex/fluentlib/server/receivers"
	"github.com/relex/gotils/logger"
	"github.com/relex/slog-agent/base"
	"github.com/relex/slog-agent/defs"
	"github.com/relex/slog-agent/output/datadog"
	"github.com/relex/slog-agent/output/fluentdforward"
	"github.com/relex/slog-agent/run"

	"slogverif/hutil"
	"slogverif/seq"
)

const configTemplate = `
anchors: []
schema:
  fields: [facility, level, time, host, app, pid, source, extradata, log]
  maxFields: 12
inputs:
INPUTS
orchestration:
  type: byKeySet
  keys: [app]
  tag: t.$app
metricKeys: [host]
transformations:
  - type: parseTime
    key: time
    errorLabel: timeError
outputBufferPairs:
  - name: out1
    buffer:
      type: hybridBuffer
      rootPath: ROOT
      maxBufSize: 1GB
    output:
OUTPUT
`

const inputTemplate = `  - type: syslog
    address: ADDRESS
    levelMapping: [off, fatal, crit, error, warn, notice, info, debug]
    extractions:
      - type: delFields
        keys: [facility, pid, extradata]
`

const fluentdOutput = `      type: fluentdForward
      serialization:
        environmentFields: [host]
        hiddenFields: [source]
        rewriteFields: {}
      messageMode: CompressedPackedForward
      upstream:
        address: ADDRESS
        tls: false
        secret: Hi
        maxDuration: 30m
`

const datadogOutput = `      type: datadog
      serialization:
        hiddenFields: [source]
      upstream:
        address: ADDRESS
        httpTimeout: 1s
`

// ---------------------------------------------------------------------------------------------------------------------
// waiting without a verdict

// waitFor blocks until cond holds. There is deliberately no timeout: a case that never completes is a wedged agent and is
// reported by the stalled-case watchdog of the enumeration driver, attributed to this case.
func waitFor(cond func() bool) {
	for !cond() {
		time.Sleep(2 * time.Millisecond)
	}
}

// ---------------------------------------------------------------------------------------------------------------------
// ports: run.Run does not return the addresses it listens on, so the configuration needs fixed ports. They are taken from
// below the range the kernel assigns to outgoing connections (so no socket of this or another process can be given the port
// by chance between the reservation and the agent's listen), test-bound once, and held under an flock so that the other
// worker processes of this harness never pick the same one.

type portLease struct {
	port int
	lock *os.File
}

var nextPort = 0

func leasePort() portLease {
	if nextPort == 0 {
		nextPort = 20000 + (os.Getpid()*131)%11000
	}
	dir := filepath.Join(os.TempDir(), "seq_agent_ports")
	os.MkdirAll(dir, 0o777)
	for {
		p := nextPort
		nextPort++
		if nextPort >= 32000 {
			nextPort = 20000
		}
		f, err := os.OpenFile(filepath.Join(dir, strconv.Itoa(p)), os.O_CREATE|os.O_RDWR, 0o666)
		if err != nil {
			continue
		}
		if syscall.Flock(int(f.Fd()), syscall.LOCK_EX|syscall.LOCK_NB) != nil {
			f.Close()
			continue
		}
		l, err := net.Listen("tcp", fmt.Sprintf("127.0.0.1:%d", p))
		if err != nil {
			f.Close()
			continue
		}
		l.Close()
		return portLease{port: p, lock: f}
	}
}

func (p portLease) release() { p.lock.Close() }

func (p portLease) addr() string { return fmt.Sprintf("127.0.0.1:%d", p.port) }

// ---------------------------------------------------------------------------------------------------------------------
// kernel's view of the loopback sockets (/proc/net/tcp): used (1) as evidence that the agent has READ the bytes of a
// connection (all bytes acknowledged by the peer's TCP and none left in the receive queue of the agent's socket) and
// (2) to know when the forward server has closed its side of every connection of the stopped agent.

type sockRow struct {
	lport, rport int
	state        int
	txq, rxq     int64
}

func readSockets() ([]sockRow, bool) {
	data, err := os.ReadFile("/proc/net/tcp")
	if err != nil {
		return nil, false
	}
	var rows []sockRow
	for i, line := range strings.Split(string(data), "\n") {
		f := strings.Fields(line)
		if i == 0 || len(f) < 5 {
			continue
		}
		la, ra, q := strings.Split(f[1], ":"), strings.Split(f[2], ":"), strings.Split(f[4], ":")
		if len(la) != 2 || len(ra) != 2 || len(q) != 2 {
			continue
		}
		lp, e1 := strconv.ParseInt(la[1], 16, 32)
		rp, e2 := strconv.ParseInt(ra[1], 16, 32)
		st, e3 := strconv.ParseInt(f[3], 16, 32)
		tx, e4 := strconv.ParseInt(q[0], 16, 64)
		rx, e5 := strconv.ParseInt(q[1], 16, 64)
		if e1 != nil || e2 != nil || e3 != nil || e4 != nil || e5 != nil {
			continue
		}
		rows = append(rows, sockRow{int(lp), int(rp), int(st), tx, rx})
	}
	return rows, true
}

var procNetUsable = func() bool { _, ok := readSockets(); return ok }()

const (
	tcpEstablished = 1
	tcpCloseWait   = 8
)

// waitAgentHasRead returns once the kernel shows that every byte written to conn so far has been copied into the agent:
// first the sending socket has nothing unacknowledged (all bytes are in the peer's TCP), then — in a LATER snapshot — the
// agent's socket of this connection has an empty receive queue. Returns false if /proc/net/tcp cannot be used.
func waitAgentHasRead(conn net.Conn) bool {
	if !procNetUsable {
		return false
	}
	lp := conn.LocalAddr().(*net.TCPAddr).Port
	rp := conn.RemoteAddr().(*net.TCPAddr).Port
	find := func(l, r int) *sockRow {
		rows, _ := readSockets()
		for i := range rows {
			if rows[i].lport == l && rows[i].rport == r {
				return &rows[i]
			}
		}
		return nil
	}
	waitFor(func() bool { r := find(lp, rp); return r != nil && r.txq == 0 })
	waitFor(func() bool { r := find(rp, lp); return r != nil && r.state == tcpEstablished && r.rxq == 0 })
	return true
}

// waitNoServerConnections returns when no socket of the server side (local port = port) is open any more: the server closes
// a connection only after it has handed everything it read from it to the collector.
func waitNoServerConnections(port int) {
	if !procNetUsable {
		time.Sleep(2 * time.Second) // no verdict depends on this being enough: without /proc the upstream set is only smaller
		return
	}
	waitFor(func() bool {
		rows, _ := readSockets()
		for _, r := range rows {
			if r.lport == port && (r.state == tcpEstablished || r.state == tcpCloseWait) {
				return false
			}
		}
		return true
	})
}

// ---------------------------------------------------------------------------------------------------------------------
// upstreams

// collected is what an answering upstream has received: log text by stamp (all texts seen, to detect alteration)
type collected struct {
	mu    sync.Mutex
	texts map[string][]string
}

func (c *collected) add(logText string) {
	c.mu.Lock()
	if c.texts == nil {
		c.texts = map[string][]string{}
	}
	st := stampOf(logText)
	c.texts[st] = append(c.texts[st], logText)
	c.mu.Unlock()
}

func (c *collected) has(stamp string) bool {
	c.mu.Lock()
	defer c.mu.Unlock()
	return len(c.texts[stamp]) > 0
}

func (c *collected) snapshot() map[string][]string {
	c.mu.Lock()
	defer c.mu.Unlock()
	out := map[string][]string{}
	for k, v := range c.texts {
		out[k] = append([]string(nil), v...)
	}
	return out
}

func stampOf(logText string) string {
	if i := strings.IndexAny(logText, " \n"); i > 0 {
		return logText[:i]
	}
	return logText
}

type upstream struct {
	address string     // what goes into the configuration
	got     *collected // records received by an upstream that answers (nil: this upstream acknowledges nothing)
	settle  func()     // after run.Run has returned: wait until everything the agent had sent is in got
	close   func()
}

func startFluentd(cond string) *upstream {
	switch cond {
	case "refusing":
		lease := leasePort()
		return &upstream{address: lease.addr(), settle: func() {}, close: lease.release}
	case "silent":
		// accepts, reads and never answers (not even the HELO of the handshake)
		l, err := net.Listen("tcp", "127.0.0.1:0")
		if err != nil {
			panic(err)
		}
		var mu sync.Mutex
		var conns []net.Conn
		go func() {
			for {
				c, err := l.Accept()
				if err != nil {
					return
				}
				mu.Lock()
				conns = append(conns, c)
				mu.Unlock()
				go io.Copy(io.Discard, c)
			}
		}()
		return &upstream{address: l.Addr().String(), settle: func() {}, close: func() {
			l.Close()
			mu.Lock()
			for _, c := range conns {
				c.Close()
			}
			mu.Unlock()
		}}
	}
	// healthy: the forward server of fluentlib with a MessageCollector. "ackless": the same server acknowledging only the
	// first chunk of every connection (RandomNoResponse=1: deterministic), i.e. healthy-then-silent per connection.
	cfg := server.Config{Address: "127.0.0.1:0", Secret: "Hi"}
	if cond == "ackless" {
		cfg.RandomNoResponse = 1.0
	}
	recv, ch := receivers.NewMessageCollector(time.Hour)
	got := &collected{}
	drained := make(chan struct{})
	go func() {
		for m := range ch {
			for _, e := range m.Entries {
				if s, ok := e.Record["log"].(string); ok {
					got.add(s)
				} else {
					got.add(fmt.Sprintf("<record without log text: %v>", e.Record))
				}
			}
		}
		close(drained)
	}()
	srv, addr := server.LaunchServer(logger.WithField("test", "upstream"), cfg, recv)
	port := addr.(*net.TCPAddr).Port
	settled := false
	settle := func() {
		if settled {
			return
		}
		settled = true
		// The agent has stopped: its connections are closed or closing. The server closes its side of a connection after the
		// last message read from it has been queued for the collector; Shutdown then ends the collector behind the queue.
		waitNoServerConnections(port)
		srv.Shutdown()
		<-drained
	}
	return &upstream{address: addr.String(), got: got, settle: settle, close: settle}
}

func startDatadog(cond string) *upstream {
	if cond == "refusing" {
		lease := leasePort()
		return &upstream{address: "http://" + lease.addr() + "/api/v2/logs", settle: func() {}, close: lease.release}
	}
	l, err := net.Listen("tcp", "127.0.0.1:0")
	if err != nil {
		panic(err)
	}
	got := &collected{}
	release := make(chan struct{})
	var mu sync.Mutex
	answered := 0
	handler := http.HandlerFunc(func(w http.ResponseWriter, r *http.Request) {
		body, rerr := io.ReadAll(r.Body)
		silent := cond == "silent"
		if cond == "ackless" {
			mu.Lock()
			silent = answered >= 1
			answered++
			mu.Unlock()
		}
		if silent {
			// accepts the request and never answers; when the case is over the connection is cut without a response
			<-release
			panic(http.ErrAbortHandler)
		}
		if rerr != nil {
			w.WriteHeader(http.StatusBadRequest)
			return
		}
		zr, zerr := gzip.NewReader(bytes.NewReader(body))
		var recs []map[string]string
		if zerr == nil {
			var plain []byte
			if plain, zerr = io.ReadAll(zr); zerr == nil {
				zerr = json.Unmarshal(plain, &recs)
			}
		}
		if zerr != nil {
			got.add(fmt.Sprintf("<undecodable request body: %v>", zerr))
			w.WriteHeader(http.StatusBadRequest)
			return
		}
		for _, rec := range recs {
			got.add(rec["log"])
		}
		w.WriteHeader(http.StatusAccepted)
		w.Write([]byte("{}"))
	})
	srv := &http.Server{Handler: handler, ErrorLog: quietHTTPLog}
	go srv.Serve(l)
	up := &upstream{address: "http://" + l.Addr().String() + "/api/v2/logs"}
	if cond == "healthy" || cond == "ackless" {
		up.got = got
	}
	closed := false
	up.settle = func() {
		if cond == "healthy" {
			// waits for the requests in flight to be answered (and collected), closes idle connections
			srv.Shutdown(context.Background())
		}
	}
	up.close = func() {
		if closed {
			return
		}
		closed = true
		close(release)
		srv.Close()
	}
	return up
}

// ---------------------------------------------------------------------------------------------------------------------
// records

type record struct {
	stamp    string
	wire     string // bytes written to the connection (newline-terminated)
	want     string // the log text that must come out
	required bool   // the agent is known to have read it before the stop
	why      string // evidence for required
}

type caseState struct {
	serial int
	recs   []*record
}

var caseSerial int

func (cs *caseState) newRecord(app string, multiline bool) *record {
	stamp := fmt.Sprintf("p%dc%dr%d", os.Getpid(), cs.serial, len(cs.recs))
	text := stamp + " message of " + app + " with some text behind the stamp " + strings.Repeat("x", 40+7*(len(cs.recs)%5))
	wire := fmt.Sprintf("<13>1 2020-01-02T03:04:05.%03dZ host1 %s 7 src - %s\n", len(cs.recs)%1000, app, text)
	if multiline {
		cont := "  continuation line of " + stamp
		wire += cont + "\n"
		text += "\n" + cont
	}
	r := &record{stamp: stamp, wire: wire, want: text}
	cs.recs = append(cs.recs, r)
	return r
}

// batch makes n records alternating between the two key sets; the last one is multi-line if asked for (a multi-line
// record without a following record stays in the framer until a flush)
func (cs *caseState) batch(n int, lastMultiline bool) []*record {
	out := make([]*record, 0, n)
	for i := 0; i < n; i++ {
		app := "alpha"
		if i%2 == 1 {
			app = "beta"
		}
		out = append(out, cs.newRecord(app, lastMultiline && i == n-1))
	}
	return out
}

func wireOf(recs []*record) []byte {
	var b bytes.Buffer
	for _, r := range recs {
		b.WriteString(r.wire)
	}
	return b.Bytes()
}

func require(recs []*record, why string) {
	for _, r := range recs {
		r.required = true
		r.why = why
	}
}

// ---------------------------------------------------------------------------------------------------------------------
// the agent's own metric listener

var scrapeClient = &http.Client{Transport: &http.Transport{DisableKeepAlives: true}}

// scrapePassed returns the sum of slogagent_input_passed_records_total over all series, or -1 if the listener does not answer
func scrapePassed(metricAddr string) int {
	resp, err := scrapeClient.Get("http://" + metricAddr + "/metrics")
	if err != nil {
		return -1
	}
	defer resp.Body.Close()
	body, err := io.ReadAll(resp.Body)
	if err != nil || resp.StatusCode != 200 {
		return -1
	}
	total := 0.0
	for _, line := range strings.Split(string(body), "\n") {
		if !strings.HasPrefix(line, "slogagent_input_passed_records_total") {
			continue
		}
		f := strings.Fields(line)
		v, perr := strconv.ParseFloat(f[len(f)-1], 64)
		if perr == nil {
			total += v
		}
	}
	return int(total)
}

// ---------------------------------------------------------------------------------------------------------------------
// chunk files of the on-disk queue, decoded with the output's own decoder

func diskRecords(root string, decoder base.ChunkDecoder, suffix string) (texts map[string][]string, files int, bad string) {
	texts = map[string][]string{}
	filepath.Walk(root, func(path string, info os.FileInfo, err error) error {
		if err != nil || info.IsDir() || info.Name() == ".id" {
			return nil
		}
		data, rerr := os.ReadFile(path)
		if rerr != nil {
			return nil
		}
		files++
		if !strings.HasSuffix(info.Name(), suffix) {
			bad = fmt.Sprintf("file %s in the queue directory is not a chunk file of this output", path)
			return nil
		}
		var buf bytes.Buffer
		if _, derr := decoder.DecodeChunkToJSON(base.LogChunk{ID: info.Name(), Data: data, Saved: true}, []byte("\n"), false, &buf); derr != nil {
			bad = fmt.Sprintf("chunk file %s (%d bytes) cannot be decoded: %v", path, len(data), derr)
			return nil
		}
		for _, line := range strings.Split(buf.String(), "\n") {
			if strings.TrimSpace(line) == "" {
				continue
			}
			var m map[string]any
			if line[0] == '[' {
				var arr []any
				if jerr := json.Unmarshal([]byte(line), &arr); jerr != nil || len(arr) != 3 {
					bad = fmt.Sprintf("chunk file %s: undecodable record %q", path, line)
					continue
				}
				m, _ = arr[2].(map[string]any)
			} else if jerr := json.Unmarshal([]byte(line), &m); jerr != nil {
				bad = fmt.Sprintf("chunk file %s: undecodable record %q", path, line)
				continue
			}
			s, _ := m["log"].(string)
			texts[stampOf(s)] = append(texts[stampOf(s)], s)
		}
		return nil
	})
	return texts, files, bad
}

// ---------------------------------------------------------------------------------------------------------------------
// one case

type spec struct {
	nIn    int
	out    string // fluentd | datadog
	up     string // healthy | refusing | silent | ackless
	shape  string // a-idle | b-closed | c-open | d-new
	reload bool   // run.Run(..., allowReload)
}

func (s spec) id() string {
	id := fmt.Sprintf("in%d/%s/%s/%s", s.nIn, s.out, s.up, s.shape)
	if s.reload {
		id += "/reloadable"
	}
	return id
}

var logs = &hutil.LogCapture{Echo: true}

// agentLogs drops the lines of the fluentlib test server (it reports every closed client connection as an error)
type agentLogs struct{}

func (agentLogs) Write(p []byte) (int, error) {
	if bytes.Contains(p, []byte("FluentdForwardTestServer")) {
		return len(p), nil
	}
	return logs.Write(p)
}

var debug = os.Getenv("SEQ_AGENT_DEBUG") != ""

func runCase(s spec) (string, string) {
	caseSerial++
	cs := &caseState{serial: caseSerial}
	logs.Reset()
	root := hutil.ScratchRoot("seqagent")
	defer os.RemoveAll(root)

	var up *upstream
	var decoder base.ChunkDecoder
	var suffix, outText string
	if s.out == "fluentd" {
		up = startFluentd(s.up)
		decoder, suffix, outText = &fluentdforward.Config{}, ".ff", fluentdOutput
	} else {
		up = startDatadog(s.up)
		decoder, suffix, outText = &datadog.Config{}, ".dd", datadogOutput
	}
	defer up.close()

	leases := []portLease{}
	defer func() {
		for _, l := range leases {
			l.release()
		}
	}()
	inputsText := ""
	inAddrs := []string{}
	for i := 0; i < s.nIn; i++ {
		l := leasePort()
		leases = append(leases, l)
		inAddrs = append(inAddrs, l.addr())
		inputsText += strings.ReplaceAll(inputTemplate, "ADDRESS", l.addr())
	}
	ml := leasePort()
	leases = append(leases, ml)
	metricAddr := ml.addr()

	cfgText := strings.ReplaceAll(configTemplate, "INPUTS\n", inputsText)
	cfgText = strings.ReplaceAll(cfgText, "OUTPUT\n", strings.ReplaceAll(outText, "ADDRESS", up.address))
	cfgText = strings.ReplaceAll(cfgText, "ROOT", filepath.Join(root, "q"))
	cfgPath := filepath.Join(root, "config.yml")
	if err := os.WriteFile(cfgPath, []byte(cfgText), 0o644); err != nil {
		panic(err)
	}

	// the shipped entry point, in a goroutine of its own; NO recover anywhere: a panic in any goroutine of the agent ends
	// this worker process and is attributed to this case by the driver
	returned := make(chan struct{})
	go func() {
		run.Run(cfgPath, metricAddr, s.reload)
		close(returned)
	}()
	// run.Run launches the inputs, then the metric listener, then registers the signals: once the metric listener answers,
	// the inputs are listening
	waitFor(func() bool { return scrapePassed(metricAddr) >= 0 })

	dial := func(i int) net.Conn {
		c, err := net.Dial("tcp4", inAddrs[i])
		if err != nil {
			panic(fmt.Sprintf("input %d (%s) of the running agent refuses a connection: %v", i, inAddrs[i], err))
		}
		return c
	}
	upstreamHas := func(recs []*record) bool {
		for _, r := range recs {
			if !up.got.has(r.stamp) {
				return false
			}
		}
		return true
	}
	// closedTraffic: one connection per input, records written, connection closed; then everything is flushed: the agent's
	// input metric counts all of them (it is updated at a flush or at the close of the connection's sink, after the records
	// were handed to the orchestrator), and a healthy upstream has received all of them
	closedTraffic := func(n int) {
		var all []*record
		for i := 0; i < s.nIn; i++ {
			c := dial(i)
			recs := cs.batch(n, true)
			if _, err := c.Write(wireOf(recs)); err != nil {
				panic(fmt.Sprintf("write to input %d failed while the agent is running: %v", i, err))
			}
			c.Close()
			all = append(all, recs...)
		}
		total := len(cs.recs)
		waitFor(func() bool { return scrapePassed(metricAddr) >= total })
		require(all, "the connection was closed by the client and the agent's input metric counted every record before the stop")
		if s.up == "healthy" {
			waitFor(func() bool { return upstreamHas(all) })
		}
	}

	passedBefore := 0
	var open []net.Conn
	switch s.shape {
	case "a-idle":
		scrapePassed(metricAddr)
	case "b-closed":
		closedTraffic(6)
		passedBefore = scrapePassed(metricAddr)
	case "c-open":
		// Connections stay open. First batch: flushed by the idle flush of the input (the metric counts it). Second batch:
		// written, then only awaited until the kernel shows that the agent has read the bytes — no pause for a flush: the
		// records sit parsed in the connection's sink, the last one (multi-line, nothing behind it) in the framer.
		// With two inputs the second one has more connections and more pending records than the first.
		type oc struct {
			conn    net.Conn
			nSecond int
			second  []*record
		}
		var ocs []*oc
		var first []*record
		for i := 0; i < s.nIn; i++ {
			nConn, nSecond := 1, 7
			if i == 1 {
				nConn, nSecond = 4, 151
			}
			for k := 0; k < nConn; k++ {
				c := dial(i)
				recs := cs.batch(4, false)
				if _, err := c.Write(wireOf(recs)); err != nil {
					panic(fmt.Sprintf("write to input %d failed while the agent is running: %v", i, err))
				}
				first = append(first, recs...)
				ocs = append(ocs, &oc{conn: c, nSecond: nSecond})
			}
		}
		nFirst := len(first)
		waitFor(func() bool { return scrapePassed(metricAddr) >= nFirst })
		require(first, "the agent's input metric counted the record before the stop")
		if s.up == "healthy" {
			waitFor(func() bool { return upstreamHas(first) })
		}
		passedBefore = scrapePassed(metricAddr)
		for _, o := range ocs {
			o.second = cs.batch(o.nSecond, true)
			if _, err := o.conn.Write(wireOf(o.second)); err != nil {
				panic(fmt.Sprintf("write to an open input connection failed while the agent is running: %v", err))
			}
			open = append(open, o.conn)
		}
		for _, o := range ocs {
			if waitAgentHasRead(o.conn) {
				require(o.second, "the kernel showed before the stop that the agent had read every byte of the connection (nothing unacknowledged at the sender, empty receive queue at the agent)")
			}
		}
	case "d-new":
		// like b; then a NEW connection per input whose first record is written immediately before the SIGTERM, no wait in
		// between: the stop races with accept / first read. Those records may legitimately be lost (never read).
		closedTraffic(4)
		passedBefore = scrapePassed(metricAddr)
		for i := 0; i < s.nIn; i++ {
			c, err := net.Dial("tcp4", inAddrs[i])
			if err != nil {
				continue
			}
			c.Write(wireOf(cs.batch(1, false)))
			open = append(open, c)
		}
	}

	// the stop request, the way production does it
	syscall.Kill(os.Getpid(), syscall.SIGTERM)
	// (A SIGTERM that arrives before run.Run has reached signal.Notify — possible only in the instant after the metric
	// listener came up — is swallowed by the harness's own registration instead of killing the worker; it is repeated.)
	resend := time.NewTicker(3 * time.Second)
stopWait:
	for {
		select {
		case <-returned:
			break stopWait
		case <-resend.C:
			syscall.Kill(os.Getpid(), syscall.SIGTERM)
		}
	}
	resend.Stop()

	// run.Run has returned: this is the instant the process would exit. The queue directory is read NOW.
	disk, files, bad := diskRecords(filepath.Join(root, "q"), decoder, suffix)
	bugLine := logs.FirstBugLine()
	for _, c := range open {
		c.Close()
	}
	up.settle()
	var acked map[string][]string
	if up.got != nil {
		acked = up.got.snapshot()
	}
	if bad != "" {
		return "undecodable-chunk-file", bad
	}

	found, missingRequired, possiblyUnread := 0, []*record{}, 0
	for _, r := range cs.recs {
		texts := append(append([]string{}, acked[r.stamp]...), disk[r.stamp]...)
		for _, t := range texts {
			if t != r.want {
				return "record-altered", fmt.Sprintf("record %s was sent with the text %q and came out (upstream or chunk file) as %q", r.stamp, r.want, t)
			}
		}
		switch {
		case len(texts) > 0:
			found++
		case r.required:
			missingRequired = append(missingRequired, r)
		default:
			possiblyUnread++
		}
	}
	ctxNote(s, possiblyUnread)
	detail := fmt.Sprintf("%d records written, %d found (upstream received %d stamps, %d chunk files hold %d stamps), input metric before the stop: %d passed", len(cs.recs), found, len(acked), files, len(disk), passedBefore)
	if bugLine != "" {
		detail += "; agent log: " + clipTo(bugLine, 300)
	}
	if debug {
		fmt.Fprintf(os.Stderr, "DEBUG %s: %s; possibly unread %d; missing required %d\n", s.id(), detail, possiblyUnread, len(missingRequired))
	}
	if len(missingRequired) > 0 {
		r := missingRequired[0]
		return "record-only-in-memory", fmt.Sprintf("after run.Run returned, %d record(s) the agent had read are neither received by the upstream nor in a chunk file of the queue directory, e.g. %s (%s); %s", len(missingRequired), r.stamp, r.why, detail)
	}
	if found < passedBefore {
		return "record-only-in-memory", fmt.Sprintf("the agent's input metric had counted %d passed records before the SIGTERM, but only %d records are upstream or in a chunk file after run.Run returned; %s", passedBefore, found, detail)
	}
	return "", ""
}

func clipTo(s string, n int) string {
	if len(s) > n {
		return s[:n] + "..."
	}
	return s
}

// possibly-unread observations (not violations) per shape, for the evidence
var unreadByShape = map[string]int{}
var theCtx *seq.Ctx

func ctxNote(s spec, possiblyUnread int) {
	if possiblyUnread == 0 || theCtx == nil {
		return
	}
	unreadByShape[s.shape] += possiblyUnread
	theCtx.Note(fmt.Sprintf("possibly-unread/%s/worker%d", s.shape, os.Getpid()), fmt.Sprintf("%d records written at the stop were found neither upstream nor on disk and count as never read by the agent (TCP), not as violations", unreadByShape[s.shape]))
}

// ---------------------------------------------------------------------------------------------------------------------

func enumerate(ctx *seq.Ctx) {
	theCtx = ctx
	reloads := []bool{false}
	ups := []string{"healthy", "refusing", "silent"}
	if ctx.Thorough() {
		reloads = []bool{false, true}
		ups = []string{"healthy", "refusing", "silent", "ackless"}
	}
	for _, reload := range reloads {
		for _, out := range []string{"fluentd", "datadog"} {
			for _, up := range ups {
				ctx.Group(fmt.Sprintf("%s/%s", out, up))
				for _, nIn := range []int{1, 2} {
					for _, shape := range []string{"a-idle", "b-closed", "c-open", "d-new"} {
						s := spec{nIn: nIn, out: out, up: up, shape: shape, reload: reload}
						ctx.Case(s.id(), shape != "a-idle", s.id(), func() (string, string) { return runCase(s) })
					}
				}
			}
		}
	}
}

var flagProp = flag.String("prop", "C18", "C18: the agent terminates after a stop request and leaves no chunk only in memory; C01: stop clause of at-least-once delivery (same cases, reported under C01)")

var quietHTTPLog = log.New(io.Discard, "", 0)

func main() {
	flag.Parse()
	logger.SetLogLevel(logger.ErrorLevel)
	logger.SetOutput(agentLogs{})
	for _, name := range []string{"shard", "replay", "case"} { // every mode that runs cases in this process
		if f := flag.Lookup(name); f != nil && f.Value.String() != "" {
			workerSetup()
			break
		}
	}
	if *flagProp != "C18" && *flagProp != "C01" {
		fmt.Printf("ENGINE-ERROR unknown -prop %q\n", *flagProp)
		os.Exit(2)
	}
	seq.Main(&seq.Config{
		Property: *flagProp,
		Level:    "exploration",
		Rule: "whole agent on real loopback sockets and real threads: the shipped run.Run(configFile, metricAddress, allowReload) in-process (byKeySet orchestrator, two key sets, hybridBuffer with a queue directory), stopped by SIGTERM to the own process; " +
			"full product of {1, 2 syslog inputs} x {fluentdForward against the fluentlib server with a MessageCollector, datadog against an HTTP server} x upstream at the stop {healthy, refusing (nothing listens), silent (accepts, reads, never answers)" +
			"; thorough: + acknowledges only the first chunk/request} x traffic at the stop {a: none; b: one connection per input, records written, closed, all flushed; c: connections still open, a second batch read by the agent but not flushed, last record multi-line in the framer; " +
			"d: after b, a new connection per input whose first record is written immediately before the SIGTERM} (thorough: x allowReload {false, true}); " +
			"oracle: run.Run returns (otherwise stalled-case watchdog), no goroutine of the agent panics (worker death is attributed to the case), and at the return of run.Run every record the agent is known to have read " +
			"(input metric slogagent_input_passed_records_total scraped from the agent's metric listener before the SIGTERM; client-side close + metric; kernel socket queues showing the bytes were read) is received by an answering upstream or in a chunk file " +
			"of the queue directory (decoded with the output's own decoder), with unchanged text; non-trivial = cases with traffic",
		Assumptions: []string{
			"real threads and sockets: the product of configurations x upstream conditions x traffic shapes is enumerated, the thread schedule (in particular stop vs accept in shape d) is what the runtime produces",
			"a record written to a socket but not read by the agent at the stop may be lost (TCP): records without evidence of having been read that are found neither upstream nor on disk are counted as possibly-unread observations (see notes), not as violations",
			"'acknowledged by the upstream' is observed as 'received by an upstream that answers' (the forward server queues a message for the collector before it sends the ACK; the HTTP server collects before it answers 202): a superset, so a chunk whose ACK was lost is not reported",
			"no wall-clock verdict: every wait is without timeout; the give-up timeouts of the agent are scaled down (test mode; channel 8 s, buffer shutdown 12 s, datadog httpTimeout 1 s) but stay far above what they wait for",
			"ports come from below the kernel's ephemeral range, test-bound and flock-reserved, because run.Run does not report the addresses it listens on",
		},
		Enumerate:        enumerate,
		MaxProcs:         6,
		QuickDeadline:    20 * time.Minute,
		ThoroughDeadline: 60 * time.Minute,
		WorkerArgs:       []string{"-prop", *flagProp},
	})
}

// workerSetup prepares a worker process: scaled-down timeouts, and a signal registration of its own so that a SIGTERM sent
// in the instant before run.Run has registered its handler does not kill the process.
func workerSetup() {
	signal.Notify(make(chan os.Signal, 1), syscall.SIGTERM)
	ppid := os.Getppid()
	go func() { // do not outlive the coordinator (SIGINT is caught by run.Run while a case is running)
		for {
			time.Sleep(time.Second)
			if os.Getppid() != ppid {
				os.Exit(3)
			}
		}
	}()
	defs.EnableTestMode()
	// several of these are computed from others at package initialisation: each is assigned explicitly
	defs.IntermediateChannelTimeout = 8 * time.Second
	defs.BufferShutDownTimeout = 12 * time.Second
	defs.ForwarderAckerStopTimeout = 6 * time.Second
	defs.IntermediateFlushInterval = 50 * time.Millisecond
	defs.InputFlushInterval = 250 * time.Millisecond
	defs.BufferMaxNumChunksInQueue = 2000 // the queue channel is allocated at this capacity per pipeline
}
