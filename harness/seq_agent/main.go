// Command seq_agent decides C18 and the stop clause of C01 at the level of the WHOLE agent: every case runs the shipped
// top-level function run.Run(configFile, metricAddress, allowReload) in-process, on real loopback sockets and real threads,
// with real upstreams (the fluentlib forward server with a collecting receiver, a small HTTP server for the Datadog output, a
// port where nothing listens, a listener that accepts, reads and never answers), and stops it the way production does: by
// sending SIGTERM to the own process (run.Run registers signal.Notify itself). Nothing of the stop sequence is re-implemented
// by the harness: shutdownInputs(), Orchestrator.Shutdown(), the listener, the concrete connection types and the order between
// them are the shipped ones.
//
// What is enumerated exhaustively is the product inputs x output kind x upstream condition x traffic shape at the stop (see
// Rule); the thread schedules are whatever the runtime produces. There is no wall-clock verdict: a case waits without
// timeout, a case that never completes is reported by the stalled-case watchdog of seq, and a panic in any goroutine of the
// agent kills the worker process and is attributed to the case in flight.
package main

import (
	"bytes"
	"compress/gzip"
	"encoding/json"
	"flag"
	"fmt"
	"io"
	"log"
	"net"
	"net/http"
	"os"
	"os/signal"
	"path/filepath"
	"runtime"
	"strconv"
	"strings"
	"sync"
	"syscall"
	"time"

	"github.com/relex/fluentlib/protocol/forwardprotocol"
	"github.com/relex/fluentlib/server"
	"github.com/relex/fluentlib/server/receivers"
	"github.com/relex/gotils/logger"
	"github.com/relex/slog-agent/base"
	"github.com/relex/slog-agent/defs"
	"github.com/relex/slog-agent/output/datadog"
	"github.com/relex/slog-agent/output/fluentdforward"
	"github.com/relex/slog-agent/run"

	"github.com/vmihailenco/msgpack/v4"

	"slogverif/hutil"
	"slogverif/seq"
)

const configTemplate = `
anchors: []
schema:
  fields: [facility, level, time, host, app, pid, source, extradata, log]
  maxFields: 12
inputs:
INPUTS
orchestration:
  type: byKeySet
  keys: [app]
  tag: t.$app
metricKeys: [host]
transformations:
  - type: parseTime
    key: time
    errorLabel: timeError
outputBufferPairs:
  - name: out1
    buffer:
      type: hybridBuffer
      rootPath: ROOT
      maxBufSize: 1GB
    output:
OUTPUT
`

const inputTemplate = `  - type: syslog
    address: ADDRESS
    levelMapping: [off, fatal, crit, error, warn, notice, info, debug]
    extractions:
      - type: delFields
        keys: [facility, pid, extradata]
`

const fluentdOutput = `      type: fluentdForward
      serialization:
        environmentFields: [host]
        hiddenFields: [source]
        rewriteFields: {}
      messageMode: MODE
      upstream:
        address: ADDRESS
        tls: false
        secret: Hi
        maxDuration: 30m
`

const datadogOutput = `      type: datadog
      serialization:
        hiddenFields: [source]
      upstream:
        address: ADDRESS
        httpTimeout: 1s
`

// ---------------------------------------------------------------------------------------------------------------------
// waiting without a verdict

// waitFor blocks until cond holds. There is deliberately no timeout: a case that never completes is a wedged agent and is
// reported by the stalled-case watchdog of the enumeration driver, attributed to this case.
func waitFor(cond func() bool) {
	for !cond() {
		time.Sleep(2 * time.Millisecond)
	}
}

// ---------------------------------------------------------------------------------------------------------------------
// ports: run.Run does not return the addresses it listens on, so the configuration needs fixed ports. They are taken from
// below the range the kernel assigns to outgoing connections (so no socket of this or another process can be given the port
// by chance between the reservation and the agent's listen), test-bound once, and held under an flock so that the other
// worker processes of this harness never pick the same one.

type portLease struct {
	port int
	lock *os.File
}

var nextPort = 0

func leasePort() portLease {
	if nextPort == 0 {
		nextPort = 20000 + (os.Getpid()*131)%11000
	}
	dir := filepath.Join(os.TempDir(), "seq_agent_ports")
	os.MkdirAll(dir, 0o777)
	for {
		p := nextPort
		nextPort++
		if nextPort >= 32000 {
			nextPort = 20000
		}
		f, err := os.OpenFile(filepath.Join(dir, strconv.Itoa(p)), os.O_CREATE|os.O_RDWR, 0o666)
		if err != nil {
			continue
		}
		if syscall.Flock(int(f.Fd()), syscall.LOCK_EX|syscall.LOCK_NB) != nil {
			f.Close()
			continue
		}
		l, err := net.Listen("tcp", fmt.Sprintf("127.0.0.1:%d", p))
		if err != nil {
			f.Close()
			continue
		}
		l.Close()
		return portLease{port: p, lock: f}
	}
}

func (p portLease) release() { p.lock.Close() }

func (p portLease) addr() string { return fmt.Sprintf("127.0.0.1:%d", p.port) }

// ---------------------------------------------------------------------------------------------------------------------
// kernel's view of the loopback sockets (/proc/net/tcp): used (1) as evidence that the agent has READ the bytes of a
// connection (all bytes acknowledged by the peer's TCP and none left in the receive queue of the agent's socket) and
// (2) to know when the forward server has closed its side of every connection of the stopped agent.

type sockRow struct {
	lport, rport int
	state        int
	txq, rxq     int64
}

func readSockets() ([]sockRow, bool) {
	data, err := os.ReadFile("/proc/net/tcp")
	if err != nil {
		return nil, false
	}
	var rows []sockRow
	for i, line := range strings.Split(string(data), "\n") {
		f := strings.Fields(line)
		if i == 0 || len(f) < 5 {
			continue
		}
		la, ra, q := strings.Split(f[1], ":"), strings.Split(f[2], ":"), strings.Split(f[4], ":")
		if len(la) != 2 || len(ra) != 2 || len(q) != 2 {
			continue
		}
		lp, e1 := strconv.ParseInt(la[1], 16, 32)
		rp, e2 := strconv.ParseInt(ra[1], 16, 32)
		st, e3 := strconv.ParseInt(f[3], 16, 32)
		tx, e4 := strconv.ParseInt(q[0], 16, 64)
		rx, e5 := strconv.ParseInt(q[1], 16, 64)
		if e1 != nil || e2 != nil || e3 != nil || e4 != nil || e5 != nil {
			continue
		}
		rows = append(rows, sockRow{int(lp), int(rp), int(st), tx, rx})
	}
	return rows, true
}

var procNetUsable = func() bool { _, ok := readSockets(); return ok }()

const (
	tcpEstablished = 1
	tcpCloseWait   = 8
)

// waitAgentHasRead returns once the kernel shows that every byte written to conn so far has been copied into the agent:
// first the sending socket has nothing unacknowledged (all bytes are in the peer's TCP), then — in a LATER snapshot — the
// agent's socket of this connection has an empty receive queue. Returns false if /proc/net/tcp cannot be used.
func waitAgentHasRead(conn net.Conn) bool {
	if !procNetUsable {
		return false
	}
	lp := conn.LocalAddr().(*net.TCPAddr).Port
	rp := conn.RemoteAddr().(*net.TCPAddr).Port
	waitFor(func() bool { r := findSocket(lp, rp); return r != nil && r.txq == 0 })
	waitFor(func() bool { r := findSocket(rp, lp); return r != nil && r.state == tcpEstablished && r.rxq == 0 })
	return true
}

// findSocket returns the kernel's row of the loopback socket with the given local and remote port, or nil
func findSocket(lport, rport int) *sockRow {
	rows, _ := readSockets()
	for i := range rows {
		if rows[i].lport == lport && rows[i].rport == rport {
			return &rows[i]
		}
	}
	return nil
}

// noServerConnections reports whether no socket of the server side (local port = port) is open any more
func noServerConnections(port int) bool {
	rows, _ := readSockets()
	for _, r := range rows {
		if r.lport == port && (r.state == tcpEstablished || r.state == tcpCloseWait) {
			return false
		}
	}
	return true
}

// ---------------------------------------------------------------------------------------------------------------------
// upstreams

// collected is what the upstream has seen (every record it read) and what it has acknowledged (records of messages it
// answered): log texts by stamp
type collected struct {
	mu    sync.Mutex
	seen  map[string][]string
	acked map[string][]string
}

func (c *collected) add(logText string, acked bool) {
	c.mu.Lock()
	if c.seen == nil {
		c.seen, c.acked = map[string][]string{}, map[string][]string{}
	}
	st := stampOf(logText)
	c.seen[st] = append(c.seen[st], logText)
	if acked {
		c.acked[st] = append(c.acked[st], logText)
	}
	c.mu.Unlock()
}

func (c *collected) hasSeen(stamp string) bool {
	c.mu.Lock()
	defer c.mu.Unlock()
	return len(c.seen[stamp]) > 0
}

func (c *collected) snapshot() (seen, acked map[string][]string) {
	c.mu.Lock()
	defer c.mu.Unlock()
	seen, acked = map[string][]string{}, map[string][]string{}
	for k, v := range c.seen {
		seen[k] = append([]string(nil), v...)
	}
	for k, v := range c.acked {
		acked[k] = append([]string(nil), v...)
	}
	return seen, acked
}

func stampOf(logText string) string {
	if i := strings.IndexAny(logText, " \n"); i > 0 {
		return logText[:i]
	}
	return logText
}

type upstream struct {
	address  string     // what goes into the configuration
	got      *collected // nil: this upstream never reads a complete message it could acknowledge
	seesAll  bool       // every chunk the agent produces reaches `got.seen` without a stop (the harness may wait for it)
	settle   func()     // after run.Run has returned: wait until everything the agent had sent is in got
	shutdown func()
}

// forwardCollector is the receiver of the fluentlib forward server (same interface as its MessageCollector, which hands on the
// messages without the connection they came from): with ackFirstOnly it knows which messages the server acknowledged — the
// server, started with RandomNoResponse=1, answers exactly the first message of every connection.
type forwardCollector struct {
	got          *collected
	ackFirstOnly bool
	connSeen     map[int64]bool
	sentinel     chan struct{}
	ended        chan struct{}
}

const sentinelTag = "seq-agent-sentinel"

func (fc *forwardCollector) Accept(m receivers.ClientMessage) error {
	if m.Tag == sentinelTag {
		close(fc.sentinel)
		return nil
	}
	first := !fc.connSeen[m.ConnectionID]
	fc.connSeen[m.ConnectionID] = true
	acked := len(m.Option.Chunk) > 0 && (first || !fc.ackFirstOnly)
	for _, e := range m.Entries {
		if s, ok := e.Record["log"].(string); ok {
			fc.got.add(s, acked)
		} else {
			fc.got.add(fmt.Sprintf("<record without log text: %v>", e.Record), acked)
		}
	}
	return nil
}
func (fc *forwardCollector) Tick() error { return nil }
func (fc *forwardCollector) End() error  { close(fc.ended); return nil }

// sendSentinel delivers one empty message through the server to the collector, as a client of its own. The server hands
// every message to ONE queue in front of the collector before it acknowledges it: when the sentinel has arrived, every message
// whose ACK the (now stopped) agent had received has arrived too. A message the agent sent without getting the ACK is, for
// the agent, not acknowledged: it must be in the queue directory anyway, so nothing has to be awaited for it.
func sendSentinel(addr string, fc *forwardCollector) {
	for {
		conn, err := net.Dial("tcp", addr)
		if err == nil {
			ok, _, herr := forwardprotocol.DoClientHandshake(conn, "Hi", time.Hour)
			if ok && herr == nil {
				conn.SetDeadline(time.Time{})
				var buf bytes.Buffer
				enc := msgpack.NewEncoder(&buf)
				enc.EncodeArrayLen(3)
				enc.EncodeString(sentinelTag)
				enc.EncodeArrayLen(0)
				enc.EncodeMapLen(1)
				enc.EncodeString("chunk")
				enc.EncodeString("sentinel")
				if _, werr := conn.Write(buf.Bytes()); werr == nil {
					<-fc.sentinel
					conn.Close()
					return
				}
			}
			conn.Close()
		}
		time.Sleep(20 * time.Millisecond)
	}
}

func startFluentd(cond string) *upstream {
	switch cond {
	case "refusing":
		lease := leasePort()
		return &upstream{address: lease.addr(), settle: func() {}, shutdown: lease.release}
	case "silent":
		// accepts, reads and never answers (not even the HELO of the handshake)
		l, err := net.Listen("tcp", "127.0.0.1:0")
		if err != nil {
			panic(err)
		}
		var mu sync.Mutex
		var conns []net.Conn
		go func() {
			for {
				c, err := l.Accept()
				if err != nil {
					return
				}
				mu.Lock()
				conns = append(conns, c)
				mu.Unlock()
				go io.Copy(io.Discard, c)
			}
		}()
		return &upstream{address: l.Addr().String(), settle: func() {}, shutdown: func() {
			l.Close()
			mu.Lock()
			for _, c := range conns {
				c.Close()
			}
			mu.Unlock()
		}}
	}
	// healthy: the forward server of fluentlib (handshake with shared secret). "ackless": the same server acknowledging only
	// the first message of every connection (RandomNoResponse=1: deterministic), i.e. healthy-then-silent per connection.
	cfg := server.Config{Address: "127.0.0.1:0", Secret: "Hi"}
	if cond == "ackless" {
		cfg.RandomNoResponse = 1.0
	}
	fc := &forwardCollector{got: &collected{}, ackFirstOnly: cond == "ackless", connSeen: map[int64]bool{}, sentinel: make(chan struct{}), ended: make(chan struct{})}
	srv, addr := server.LaunchServer(logger.WithField("test", "upstream"), cfg, fc)
	port := addr.(*net.TCPAddr).Port
	settled := false
	settle := func() {
		if !settled {
			settled = true
			sendSentinel(addr.String(), fc)
		}
	}
	shutdown := func() {
		settle()
		// The server's Shutdown closes the queue in front of the collector while connection goroutines may still be putting
		// messages into it (a crash inside the test server). It is therefore only called once the kernel shows no open
		// connection on the server's port (a connection goroutine closes its socket after its last message); an agent that
		// has left a connection behind (e.g. one that was being opened at the stop) keeps this server alive until the worker
		// process ends. No verdict depends on this.
		for i := 0; i < 100 && procNetUsable; i++ {
			if noServerConnections(port) {
				srv.Shutdown()
				<-fc.ended
				return
			}
			time.Sleep(5 * time.Millisecond)
		}
	}
	return &upstream{address: addr.String(), got: fc.got, seesAll: true, settle: settle, shutdown: shutdown}
}

func startDatadog(cond string) *upstream {
	if cond == "refusing" {
		lease := leasePort()
		return &upstream{address: "http://" + lease.addr() + "/api/v2/logs", settle: func() {}, shutdown: lease.release}
	}
	l, err := net.Listen("tcp", "127.0.0.1:0")
	if err != nil {
		panic(err)
	}
	got := &collected{}
	release := make(chan struct{})
	var mu sync.Mutex
	requests := 0
	handler := http.HandlerFunc(func(w http.ResponseWriter, r *http.Request) {
		body, rerr := io.ReadAll(r.Body)
		mu.Lock()
		requests++
		// silent: accepts every request and never answers; ackless: answers the first request only
		answer := cond == "healthy" || (cond == "ackless" && requests == 1)
		mu.Unlock()
		var recs []map[string]string
		if rerr == nil {
			var zr *gzip.Reader
			if zr, rerr = gzip.NewReader(bytes.NewReader(body)); rerr == nil {
				var plain []byte
				if plain, rerr = io.ReadAll(zr); rerr == nil {
					rerr = json.Unmarshal(plain, &recs)
				}
			}
		}
		if rerr != nil {
			got.add(fmt.Sprintf("<undecodable request body: %v>", rerr), false)
		}
		for _, rec := range recs {
			got.add(rec["log"], answer && rerr == nil)
		}
		if !answer {
			// when the case is over the connection is cut without a response
			<-release
			panic(http.ErrAbortHandler)
		}
		if rerr != nil {
			w.WriteHeader(http.StatusBadRequest)
			return
		}
		w.WriteHeader(http.StatusAccepted)
		w.Write([]byte("{}"))
	})
	srv := &http.Server{Handler: handler, ErrorLog: quietHTTPLog}
	go srv.Serve(l)
	up := &upstream{address: "http://" + l.Addr().String() + "/api/v2/logs", got: got, seesAll: cond == "healthy"}
	closed := false
	// the handler collects a request before it answers it: what the stopped agent saw acknowledged is collected already
	up.settle = func() {}
	up.shutdown = func() {
		if closed {
			return
		}
		closed = true
		close(release)
		srv.Close()
	}
	return up
}

// ---------------------------------------------------------------------------------------------------------------------
// records

type record struct {
	stamp    string
	wire     string // bytes written to the connection (newline-terminated)
	want     string // the log text that must come out
	required bool   // the agent is known to have read it before the stop
	why      string // evidence for required
}

type caseState struct {
	serial int
	recs   []*record
}

var caseSerial int

func (cs *caseState) newRecord(app string, multiline bool) *record {
	stamp := fmt.Sprintf("p%dc%dr%d", os.Getpid(), cs.serial, len(cs.recs))
	text := stamp + " message of " + app + " with some text behind the stamp " + strings.Repeat("x", 40+7*(len(cs.recs)%5))
	wire := fmt.Sprintf("<13>1 2020-01-02T03:04:05.%03dZ host1 %s 7 src - %s\n", len(cs.recs)%1000, app, text)
	if multiline {
		cont := "  continuation line of " + stamp
		wire += cont + "\n"
		text += "\n" + cont
	}
	r := &record{stamp: stamp, wire: wire, want: text}
	cs.recs = append(cs.recs, r)
	return r
}

// batch makes n records alternating between the two key sets; the last one is multi-line if asked for (a multi-line
// record without a following record stays in the framer until a flush)
func (cs *caseState) batch(n int, lastMultiline bool) []*record {
	out := make([]*record, 0, n)
	for i := 0; i < n; i++ {
		app := "alpha"
		if i%2 == 1 {
			app = "beta"
		}
		out = append(out, cs.newRecord(app, lastMultiline && i == n-1))
	}
	return out
}

func wireOf(recs []*record) []byte {
	var b bytes.Buffer
	for _, r := range recs {
		b.WriteString(r.wire)
	}
	return b.Bytes()
}

func require(recs []*record, why string) {
	for _, r := range recs {
		r.required = true
		r.why = why
	}
}

// ---------------------------------------------------------------------------------------------------------------------
// the agent's own metric listener

var scrapeClient = &http.Client{Transport: &http.Transport{DisableKeepAlives: true}}

// scrapePassed returns the sum of slogagent_input_passed_records_total over all series, or -1 if the listener does not answer
func scrapePassed(metricAddr string) int {
	resp, err := scrapeClient.Get("http://" + metricAddr + "/metrics")
	if err != nil {
		return -1
	}
	defer resp.Body.Close()
	body, err := io.ReadAll(resp.Body)
	if err != nil || resp.StatusCode != 200 {
		return -1
	}
	total := 0.0
	for _, line := range strings.Split(string(body), "\n") {
		if !strings.HasPrefix(line, "slogagent_input_passed_records_total") {
			continue
		}
		f := strings.Fields(line)
		v, perr := strconv.ParseFloat(f[len(f)-1], 64)
		if perr == nil {
			total += v
		}
	}
	return int(total)
}

// ---------------------------------------------------------------------------------------------------------------------
// chunk files of the on-disk queue, decoded with the output's own decoder

func diskRecords(root string, decoder base.ChunkDecoder, suffix string) (texts map[string][]string, files int, bad string) {
	texts = map[string][]string{}
	filepath.Walk(root, func(path string, info os.FileInfo, err error) error {
		if err != nil || info.IsDir() || info.Name() == ".id" {
			return nil
		}
		data, rerr := os.ReadFile(path)
		if rerr != nil {
			return nil
		}
		files++
		if !strings.HasSuffix(info.Name(), suffix) {
			bad = fmt.Sprintf("file %s in the queue directory is not a chunk file of this output", path)
			return nil
		}
		var buf bytes.Buffer
		if _, derr := decoder.DecodeChunkToJSON(base.LogChunk{ID: info.Name(), Data: data, Saved: true}, []byte("\n"), false, &buf); derr != nil {
			bad = fmt.Sprintf("chunk file %s (%d bytes) cannot be decoded: %v", path, len(data), derr)
			return nil
		}
		for _, line := range strings.Split(buf.String(), "\n") {
			if strings.TrimSpace(line) == "" {
				continue
			}
			var m map[string]any
			if line[0] == '[' {
				var arr []any
				if jerr := json.Unmarshal([]byte(line), &arr); jerr != nil || len(arr) != 3 {
					bad = fmt.Sprintf("chunk file %s: undecodable record %q", path, line)
					continue
				}
				m, _ = arr[2].(map[string]any)
			} else if jerr := json.Unmarshal([]byte(line), &m); jerr != nil {
				bad = fmt.Sprintf("chunk file %s: undecodable record %q", path, line)
				continue
			}
			s, _ := m["log"].(string)
			texts[stampOf(s)] = append(texts[stampOf(s)], s)
		}
		return nil
	})
	return texts, files, bad
}

// ---------------------------------------------------------------------------------------------------------------------
// one case

type spec struct {
	nIn    int
	out    string // fluentd | datadog
	mode   string // fluentd message mode
	cycle  bool   // fluentd maxDuration 300ms: the client session keeps ending softly and reconnecting
	up     string // healthy | refusing | silent | ackless
	shape  string // a-idle | b-closed | c-open | c-open-big | d-new | d-newkey
	reload bool   // run.Run(..., allowReload)
}

func (s spec) id() string {
	out := s.out
	if s.mode != "" && s.mode != "CompressedPackedForward" {
		out += "-" + s.mode
	}
	if s.cycle {
		out += "-cycle"
	}
	id := fmt.Sprintf("in%d/%s/%s/%s", s.nIn, out, s.up, s.shape)
	if s.reload {
		id += "/reloadable"
	}
	return id
}

var logs = &hutil.LogCapture{Echo: true}

// agentLogs drops the lines of the fluentlib test server (it reports every closed client connection as an error)
type agentLogs struct{}

func (agentLogs) Write(p []byte) (int, error) {
	if bytes.Contains(p, []byte("FluentdForwardTestServer")) {
		return len(p), nil
	}
	return logs.Write(p)
}

// SEQ_AGENT_DEBUG=<file>: one line per case (counts, wall time) is appended to the file; never part of a verdict
var debugFile = os.Getenv("SEQ_AGENT_DEBUG")

func runCase(s spec) (string, string) {
	caseSerial++
	cs := &caseState{serial: caseSerial}
	caseStart := time.Now()
	logs.Reset()
	root := hutil.ScratchRoot("seqagent")
	defer os.RemoveAll(root)

	var up *upstream
	var decoder base.ChunkDecoder
	var suffix, outText string
	if s.out == "fluentd" {
		up = startFluentd(s.up)
		decoder, suffix, outText = &fluentdforward.Config{}, ".ff", strings.ReplaceAll(fluentdOutput, "MODE", s.mode)
		if s.cycle {
			outText = strings.ReplaceAll(outText, "maxDuration: 30m", "maxDuration: 300ms")
		}
	} else {
		up = startDatadog(s.up)
		decoder, suffix, outText = &datadog.Config{}, ".dd", datadogOutput
	}
	defer up.shutdown()

	leases := []portLease{}
	defer func() {
		for _, l := range leases {
			l.release()
		}
	}()
	inputsText := ""
	inAddrs := []string{}
	for i := 0; i < s.nIn; i++ {
		l := leasePort()
		leases = append(leases, l)
		inAddrs = append(inAddrs, l.addr())
		inputsText += strings.ReplaceAll(inputTemplate, "ADDRESS", l.addr())
	}
	ml := leasePort()
	leases = append(leases, ml)
	metricAddr := ml.addr()

	cfgText := strings.ReplaceAll(configTemplate, "INPUTS\n", inputsText)
	cfgText = strings.ReplaceAll(cfgText, "OUTPUT\n", strings.ReplaceAll(outText, "ADDRESS", up.address))
	cfgText = strings.ReplaceAll(cfgText, "ROOT", filepath.Join(root, "q"))
	cfgPath := filepath.Join(root, "config.yml")
	if err := os.WriteFile(cfgPath, []byte(cfgText), 0o644); err != nil {
		panic(err)
	}

	// the shipped entry point, in a goroutine of its own; NO recover anywhere: a panic in any goroutine of the agent ends
	// this worker process and is attributed to this case by the driver
	returned := make(chan struct{})
	go func() {
		run.Run(cfgPath, metricAddr, s.reload)
		close(returned)
	}()
	// run.Run launches the inputs, then the metric listener, then registers the signals: once the metric listener answers,
	// the inputs are listening
	waitFor(func() bool { return scrapePassed(metricAddr) >= 0 })

	dial := func(i int) net.Conn {
		c, err := net.Dial("tcp4", inAddrs[i])
		if err != nil {
			panic(fmt.Sprintf("input %d (%s) of the running agent refuses a connection: %v", i, inAddrs[i], err))
		}
		return c
	}
	write := func(c net.Conn, recs []*record) {
		if _, err := c.Write(wireOf(recs)); err != nil {
			panic(fmt.Sprintf("write to an input connection failed while the agent is running: %v", err))
		}
	}
	upstreamSaw := func(recs []*record) bool {
		for _, r := range recs {
			if !up.got.hasSeen(r.stamp) {
				return false
			}
		}
		return true
	}
	// closedTraffic: two rounds of one connection per input, records written, connection closed; after each round everything
	// is flushed: the agent's input metric counts all records (it is updated at a flush or at the close of the connection's
	// sink, after the records were handed to the orchestrator), and an upstream that reads everything has seen all of them.
	// (Two rounds: the second chunk of a pipeline travels on an upstream connection that has carried one before.)
	closedTraffic := func(n int) {
		for round := 0; round < 2; round++ {
			var all []*record
			for i := 0; i < s.nIn; i++ {
				c := dial(i)
				recs := cs.batch(n, true)
				write(c, recs)
				c.Close()
				all = append(all, recs...)
			}
			total := len(cs.recs)
			waitFor(func() bool { return scrapePassed(metricAddr) >= total })
			require(all, "the connection was closed by the client and the agent's input metric counted every record before the stop")
			if up.seesAll {
				waitFor(func() bool { return upstreamSaw(all) })
			}
		}
	}
	// openTraffic: connections stay open. First batch: flushed by the idle flush of the input (the metric counts it). Second
	// batch: written, then only awaited until the kernel shows that the agent has read the bytes — no pause for a flush: the
	// records sit parsed in the connection's sink, the last one (multi-line, nothing behind it) in the framer.
	// With several inputs the later ones have more connections and more pending records than the first.
	var open []net.Conn
	type lateConn struct {
		conn net.Conn
		rec  *record
	}
	var lastMinute []lateConn
	passedBefore := 0
	openTraffic := func(big bool) {
		type oc struct {
			conn    net.Conn
			nSecond int
			second  []*record
		}
		var ocs []*oc
		var first []*record
		for i := 0; i < s.nIn; i++ {
			nConn, nSecond := 1, 7
			if i >= 1 {
				nConn, nSecond = 4, 151
			}
			if big { // more than the 500 records a connection's sink holds before it hands them on by itself
				nConn, nSecond = 1+i, 620
			}
			for k := 0; k < nConn; k++ {
				c := dial(i)
				recs := cs.batch(4, false)
				write(c, recs)
				first = append(first, recs...)
				ocs = append(ocs, &oc{conn: c, nSecond: nSecond})
				open = append(open, c)
			}
		}
		nFirst := len(first)
		waitFor(func() bool { return scrapePassed(metricAddr) >= nFirst })
		require(first, "the agent's input metric counted the record before the stop")
		if up.seesAll {
			waitFor(func() bool { return upstreamSaw(first) })
		}
		passedBefore = scrapePassed(metricAddr)
		for _, o := range ocs {
			o.second = cs.batch(o.nSecond, true)
			write(o.conn, o.second)
		}
		for _, o := range ocs {
			if waitAgentHasRead(o.conn) {
				require(o.second, "the kernel showed before the stop that the agent had read every byte of the connection (nothing unacknowledged at the sender, empty receive queue at the agent)")
			}
		}
	}

	switch s.shape {
	case "a-idle":
		scrapePassed(metricAddr)
	case "b-closed":
		closedTraffic(3)
		passedBefore = scrapePassed(metricAddr)
	case "c-open":
		openTraffic(false)
	case "c-open-big":
		openTraffic(true)
	case "d-new", "d-newkey":
		// like b; then a NEW connection per input whose first record is written immediately before the SIGTERM, no wait in
		// between: the stop races with accept / first read. Those records may legitimately be lost (never read).
		// d-newkey: the record belongs to a key set the agent has not seen yet (a pipeline would have to be created).
		closedTraffic(2)
		passedBefore = scrapePassed(metricAddr)
		for i := 0; i < s.nIn; i++ {
			c, err := net.Dial("tcp4", inAddrs[i])
			if err != nil {
				continue
			}
			app := "alpha"
			if s.shape == "d-newkey" {
				app = fmt.Sprintf("gamma%d", i)
			}
			r := cs.newRecord(app, false)
			_, werr := c.Write([]byte(r.wire))
			open = append(open, c)
			if werr == nil {
				lastMinute = append(lastMinute, lateConn{c, r})
			}
		}
	}

	// the stop request, the way production does it
	stopStart := time.Now()
	syscall.Kill(os.Getpid(), syscall.SIGTERM)
	// (A SIGTERM that arrives before run.Run has reached signal.Notify — possible only in the instant after the metric
	// listener came up — is swallowed by the harness's own registration instead of killing the worker; it is repeated.)
	resend := time.NewTicker(3 * time.Second)
stopWait:
	for {
		select {
		case <-returned:
			break stopWait
		case <-resend.C:
			syscall.Kill(os.Getpid(), syscall.SIGTERM)
		}
	}
	resend.Stop()
	stopTook := time.Since(stopStart) // reported in the debug file only

	// run.Run has returned: this is the instant the process would exit. The queue directory is read NOW.
	disk, files, bad := diskRecords(filepath.Join(root, "q"), decoder, suffix)
	bugLine := logs.FirstBugLine()
	// A connection opened immediately before the stop: the agent has closed its side by now (or never accepted it). The kernel
	// answers a close with unread bytes in the receive queue, and bytes arriving after the close, with a reset; an orderly end
	// of stream (FIN) therefore shows that the agent had read every byte written to the connection — the record counts as read.
	for _, lc := range lastMinute {
		lc.conn.SetReadDeadline(time.Now().Add(30 * time.Second)) // still open after the agent has stopped: no evidence either way
		_, err := lc.conn.Read(make([]byte, 16))
		// (end of stream alone is not enough: if the agent had closed BEFORE the bytes arrived, the end of stream would be
		// followed by a reset. The kernel must also show this socket still half-open — no reset received — with every byte
		// acknowledged by the agent's TCP, i.e. taken into the receive queue of a socket the agent had not closed yet.)
		if err == io.EOF && procNetUsable {
			lp, rp := lc.conn.LocalAddr().(*net.TCPAddr).Port, lc.conn.RemoteAddr().(*net.TCPAddr).Port
			if r := findSocket(lp, rp); r != nil && r.state == tcpCloseWait && r.txq == 0 {
				require([]*record{lc.rec}, "the agent ended the connection in an orderly way (end of stream, no reset, every byte acknowledged): it had read every byte written to it")
			}
		}
	}
	for _, c := range open {
		c.Close()
	}
	up.settle()
	var seen, acked map[string][]string
	if up.got != nil {
		seen, acked = up.got.snapshot()
	}
	letStragglersEnd()
	if bad != "" {
		return "undecodable-chunk-file", bad
	}

	found, missingRequired, possiblyUnread := 0, []*record{}, 0
	for _, r := range cs.recs {
		for _, t := range append(append([]string{}, seen[r.stamp]...), disk[r.stamp]...) {
			if t != r.want {
				return "record-altered", fmt.Sprintf("record %s was sent with the text %q and came out (upstream or chunk file) as %q", r.stamp, r.want, t)
			}
		}
		switch {
		case len(acked[r.stamp])+len(disk[r.stamp]) > 0:
			found++
		case r.required:
			missingRequired = append(missingRequired, r)
		default:
			possiblyUnread++
		}
	}
	ctxNote(s, possiblyUnread)
	detail := fmt.Sprintf("%d records written, %d found (the upstream answered messages holding %d of the stamps and read %d, %d chunk files hold %d stamps), input metric before the stop: %d passed",
		len(cs.recs), found, len(acked), len(seen), files, len(disk), passedBefore)
	if bugLine != "" {
		detail += "; agent log: " + clipTo(bugLine, 300)
	}
	if debugFile != "" {
		if f, err := os.OpenFile(debugFile, os.O_APPEND|os.O_CREATE|os.O_WRONLY, 0o644); err == nil {
			lateRead := 0
			for _, lc := range lastMinute {
				if lc.rec.required {
					lateRead++
				}
			}
			fmt.Fprintf(f, "%6.2fs (stop %5.2fs) %s: %s; possibly unread %d; missing required %d; last-minute records shown read %d/%d\n", time.Since(caseStart).Seconds(), stopTook.Seconds(), s.id(), detail, possiblyUnread, len(missingRequired), lateRead, len(lastMinute))
			f.Close()
		}
	}
	if len(missingRequired) > 0 {
		r := missingRequired[0]
		return "record-only-in-memory", fmt.Sprintf("after run.Run returned, %d record(s) the agent had read are neither acknowledged by the upstream nor in a chunk file of the queue directory, e.g. %s (%s); %s", len(missingRequired), r.stamp, r.why, detail)
	}
	if found < passedBefore {
		return "record-only-in-memory", fmt.Sprintf("the agent's input metric had counted %d passed records before the SIGTERM, but only %d records are acknowledged by the upstream or in a chunk file after run.Run returned; %s", passedBefore, found, detail)
	}
	return "", ""
}

// letStragglersEnd gives connection goroutines of the stopped agent that are still running a moment to end before the
// next case starts in this process, so that a crash they cause is attributed to the case that left them behind. No verdict
// depends on it (an agent that returns from run.Run with live connection goroutines is found by what they do next).
func letStragglersEnd() {
	buf := make([]byte, 1<<20)
	for i := 0; i < 100; i++ {
		n := runtime.Stack(buf, true)
		if !bytes.Contains(buf[:n], []byte("tcplistener.(*tcpLineListener).runConnection")) {
			return
		}
		time.Sleep(10 * time.Millisecond)
	}
}

func clipTo(s string, n int) string {
	if len(s) > n {
		return s[:n] + "..."
	}
	return s
}

// possibly-unread observations (not violations) per shape, for the evidence
var unreadByShape = map[string]int{}
var theCtx *seq.Ctx

func ctxNote(s spec, possiblyUnread int) {
	if possiblyUnread == 0 || theCtx == nil {
		return
	}
	unreadByShape[s.shape] += possiblyUnread
	theCtx.Note(fmt.Sprintf("possibly-unread/%s/worker%d", s.shape, os.Getpid()), fmt.Sprintf("%d records written at the stop were found neither upstream nor on disk and count as never read by the agent (TCP), not as violations", unreadByShape[s.shape]))
}

// ---------------------------------------------------------------------------------------------------------------------

func enumerate(ctx *seq.Ctx) {
	theCtx = ctx
	type outKind struct {
		out, mode string
		cycle     bool
	}
	outs := []outKind{{"fluentd", "CompressedPackedForward", false}, {"datadog", "", false}}
	nIns := []int{1, 2}
	shapes := []string{"a-idle", "b-closed", "c-open", "d-new", "d-newkey"}
	if ctx.Thorough() {
		outs = nil
		for _, cycle := range []bool{false, true} {
			for _, mode := range []string{"CompressedPackedForward", "PackedForward", "Forward"} {
				outs = append(outs, outKind{"fluentd", mode, cycle})
			}
		}
		outs = append(outs, outKind{"datadog", "", false})
		nIns = []int{1, 2, 3}
		shapes = []string{"a-idle", "b-closed", "c-open", "c-open-big", "d-new", "d-newkey"}
	}
	for _, reload := range []bool{false, true} {
		for _, o := range outs {
			for _, up := range []string{"healthy", "refusing", "silent", "ackless"} {
				ctx.Group(fmt.Sprintf("%s/%s", o.out, up))
				for _, nIn := range nIns {
					for _, shape := range shapes {
						if ctx.Stop() {
							return
						}
						s := spec{nIn: nIn, out: o.out, mode: o.mode, cycle: o.cycle, up: up, shape: shape, reload: reload}
						ctx.Case(s.id(), shape != "a-idle", s.id(), func() (string, string) { return runCase(s) })
					}
				}
			}
		}
	}
}

var flagProp = flag.String("prop", "C18", "C18: the agent terminates after a stop request and leaves no chunk only in memory; C01: stop clause of at-least-once delivery (same cases, reported under C01)")

var quietHTTPLog = log.New(io.Discard, "", 0)

func main() {
	flag.Parse()
	logger.SetLogLevel(logger.ErrorLevel)
	logger.SetOutput(agentLogs{})
	for _, name := range []string{"shard", "replay", "case"} { // every mode that runs cases in this process
		if f := flag.Lookup(name); f != nil && f.Value.String() != "" {
			workerSetup()
			break
		}
	}
	if *flagProp != "C18" && *flagProp != "C01" {
		fmt.Printf("ENGINE-ERROR unknown -prop %q\n", *flagProp)
		os.Exit(2)
	}
	seq.Main(&seq.Config{
		Property: *flagProp,
		Level:    "exploration",
		Rule: "whole agent on real loopback sockets and real threads: the shipped run.Run(configFile, metricAddress, allowReload) in-process (byKeySet orchestrator, two key sets, hybridBuffer with a queue directory), stopped by SIGTERM to the own process; " +
			"full product of allowReload {false, true} x {1, 2 syslog inputs; thorough: 3} x {fluentdForward against the fluentlib forward server (secret handshake; thorough: all three message modes x maxDuration {30m, 300ms}), datadog against an HTTP server collecting the gzip-JSON bodies} " +
			"x upstream at the stop {healthy, refusing (nothing listens), silent (accepts, reads, never answers), ackless (answers only the first message of a connection / the first request)} " +
			"x traffic at the stop {a: none; b: connections written and closed, all flushed; c: connections still open, a second batch read by the agent but not flushed, last record multi-line in the framer (thorough: also with more pending records than a sink holds); " +
			"d: after b, a new connection per input whose first record (known key set / new key set) is written immediately before the SIGTERM}; " +
			"oracle: run.Run returns (otherwise stalled-case watchdog), no goroutine of the agent panics (worker death is attributed to the case), and at the return of run.Run every record the agent is known to have read " +
			"(input metric slogagent_input_passed_records_total scraped from the agent's metric listener before the SIGTERM; client-side close + metric; kernel socket queues showing the bytes were read) is in a message the upstream answered or in a chunk file " +
			"of the queue directory (decoded with the output's own decoder), with unchanged text; non-trivial = cases with traffic",
		Assumptions: []string{
			"real threads and sockets: the product of configurations x upstream conditions x traffic shapes is enumerated, the thread schedule (in particular stop vs accept in shape d) is what the runtime produces",
			"a record written to a socket but not read by the agent at the stop may be lost (TCP): records without evidence of having been read that are found neither upstream nor on disk are counted as possibly-unread observations (see notes), not as violations",
			"'acknowledged by the upstream' is observed at the upstream as 'in a message the upstream answered' (the forward server hands a message to the receiver before it sends the ACK; the HTTP server collects before it answers 202): a superset of what the agent saw acknowledged, so a chunk whose ACK was lost on the way is not reported",
			"no wall-clock verdict: every wait is without timeout; the give-up timeouts of the agent are scaled down (test mode; channel 8 s, buffer shutdown 12 s, datadog httpTimeout 1 s) but stay far above what they wait for",
			"ports come from below the kernel's ephemeral range, test-bound and flock-reserved, because run.Run does not report the addresses it listens on",
			"several cases run one after the other in one worker process (run.Run works repeatedly in one process: its metric factories are per call, the default registry is only used by promhttp's handler instrumentation, which tolerates re-registration)",
		},
		Enumerate:        enumerate,
		MaxProcs:         6,
		QuickDeadline:    20 * time.Minute,
		ThoroughDeadline: 60 * time.Minute,
		WorkerArgs:       []string{"-prop", *flagProp},
	})
}

// workerSetup prepares a process that runs cases: scaled-down timeouts, and a signal registration of its own so that a
// SIGTERM sent in the instant before run.Run has registered its handler does not kill the process.
func workerSetup() {
	signal.Notify(make(chan os.Signal, 1), syscall.SIGTERM)
	ppid := os.Getppid()
	go func() { // do not outlive the coordinator (SIGINT is caught by run.Run while a case is running)
		for {
			time.Sleep(time.Second)
			if os.Getppid() != ppid {
				os.Exit(3)
			}
		}
	}()
	defs.EnableTestMode()
	// several of these are computed from others at package initialisation: each is assigned explicitly
	defs.IntermediateChannelTimeout = 8 * time.Second
	defs.BufferShutDownTimeout = 12 * time.Second
	defs.ForwarderAckerStopTimeout = 6 * time.Second
	defs.IntermediateFlushInterval = 50 * time.Millisecond
	defs.InputFlushInterval = 250 * time.Millisecond
	defs.BufferMaxNumChunksInQueue = 2000 // the queue channel is allocated at this capacity per pipeline
}
