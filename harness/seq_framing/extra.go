package main

// Dimensions added after the red-team review of C08 (see README.md):
//   - recogniser: the record-start grammar "<" 1*3DIGIT ">1 " with its minimum length is swept at every role position
//     over all 256 byte values, over every PRI numeral and over the lengths around the documented minimum, THROUGH the
//     framer (the line sits between two ordinary records, under cuts and flush placements);
//   - content: line ends and line bodies carry every byte value (CR LF line ends, a line that is only "\r", trailing
//     blanks ...): every emit path (next head arrived / Flush / FlushAll) must deliver the same bytes;
//   - limit edge: records of exactly the soft limit and one or two bytes below it;
//   - two readers alive at the same time with interleaved operations: instances must not share state.

import (
	"fmt"
	"strings"

	"github.com/relex/slog-agent/input/tcplistener"
)

// headPri builds a head-shaped line of exactly n bytes whose PRI part is the given text (NILVALUE timestamp: what follows
// "<PRI>1 " is not part of the documented record-start test, and it keeps the minimum-length lines possible).
func headPri(pri string, tag byte, n int) string {
	l := pri + "1 - h a 1 m - "
	if len(l) > n {
		panic("headPri: line too short")
	}
	for len(l) < n {
		l += string(rune(tag))
	}
	return l
}

// around puts the line x between / before / behind two ordinary records, followed by its own continuation line where
// it is not last (so that "x is a head" and "x is not a head" give references that differ in two places).
func around(placement string, x string) string {
	a, b := head(0, 40)+"\n", head(2, 41)+"\n"
	switch placement {
	case "mid":
		return a + x + "\n c\n" + b
	case "first":
		return x + "\n c\n" + a + b
	case "last":
		return a + b + x + "\n"
	}
	panic(placement)
}

// priMenu: every numeral 0..999 and the spellings RFC 5424 excludes or the grammar does not admit.
func priMenu() []string {
	var m []string
	for v := 0; v <= 999; v++ {
		m = append(m, fmt.Sprint(v))
	}
	for _, s := range []string{"00", "01", "09", "000", "001", "013", "099", "0000", "0013", "1000", "1234", "", " ", "-1", "+5", " 1", "1 ", "1.", "1e1", "0x1", "٣"} {
		m = append(m, s)
	}
	return m
}

func (r *runner) recogniserGroups(thorough bool) {
	ctx := r.ctx
	d := r.mid

	// ---- lengths around the documented minimum of 32 bytes, three PRI widths, three placements
	ctx.Group("mid/recogniser/length-28..36/cuts<=2")
	for _, pri := range []string{"<0>", "<13>", "<191>"} {
		for n := 28; n <= 36; n++ {
			for _, pl := range []string{"mid", "first", "last"} {
				maxCuts := 1
				if pl == "mid" || thorough {
					maxCuts = 2
				}
				s := newStream(fmt.Sprintf("len/%s/%d/%s", pri, n, pl), around(pl, headPri(pri, 'L', n)))
				r.stream(d, false, s, maxCuts)
			}
		}
	}

	// ---- every PRI numeral (0..191 must be heads; 192..999 and leading zeros: either; other spellings: not heads)
	ctx.Group("mid/recogniser/pri-numerals/cuts<=1")
	for i, num := range priMenu() {
		for _, n := range []int{32, 33} {
			s := newStream(fmt.Sprintf("pri/%d(%q)/%d", i, num, n), around("mid", headPri("<"+num+">", 'P', n)))
			r.stream(d, false, s, 1)
		}
	}

	// ---- all 256 byte values at every role position of "<" DIGITS ">1 " and at the first byte behind it
	lens := []int{32}
	if thorough {
		lens = []int{32, 33, 45}
	}
	for _, n := range lens {
		ctx.Group(fmt.Sprintf("mid/recogniser/byte-sweep/len%d/cuts<=1", n))
		for _, pri := range []string{"<3>", "<13>", "<163>"} {
			tpl := headPri(pri, 'B', n)
			for pos := 0; pos <= len(pri)+2; pos++ { // '<', digits, '>', '1', ' ', first byte of the timestamp
				for b := 0; b < 256; b++ {
					if ctx.Stop() {
						return
					}
					x := tpl[:pos] + string([]byte{byte(b)}) + tpl[pos+1:]
					placements := []string{"mid"}
					if thorough {
						placements = []string{"mid", "first", "last"}
					}
					for _, pl := range placements {
						s := newStream(fmt.Sprintf("byte/%s/%d/pos%d/%02x/%s", pri, n, pos, b, pl), around(pl, x))
						r.stream(d, false, s, 1)
					}
				}
			}
		}
	}
}

// content kinds: records whose line ends / line bodies carry bytes that a framer might be tempted to normalise
var contentKinds = []kind{
	{"S", func(i int) string { return head(i, 40+i) + "\n" }},
	{"Sr", func(i int) string { return head(i, 40) + "\r\n" }},                                         // CR LF
	{"Mr", func(i int) string { return head(i, 40) + "\r\n" + fmt.Sprintf(" at line%d", i) + "\r\n" }}, // CR LF on both lines
	{"Mx", func(i int) string { return head(i, 40) + "\r\n" + fmt.Sprintf(" at line%d", i) + "\n" }},   // mixed line ends
	{"Cr", func(i int) string { return head(i, 40) + "\n\r\n" }},                                       // a line that is only "\r"
	{"Sb", func(i int) string { return head(i, 40) + " \n" }},                                          // trailing blank
	{"Mt", func(i int) string { return head(i, 40) + "\t\n" + fmt.Sprintf("\tc%d \t", i) + "\n" }},     // trailing TAB / blank+TAB
	{"Z", func(i int) string { return head(i, 40) + "\x00\n" + "\x00\n" }},                             // NUL at the line end, NUL-only line
}

func buildContentStream(ks []int) *stream {
	var sb strings.Builder
	name := "content:"
	for i, k := range ks {
		sb.WriteString(contentKinds[k].build(i))
		name += contentKinds[k].code
	}
	return newStream(name, sb.String())
}

func (r *runner) contentGroups(thorough bool) {
	ctx := r.ctx
	d := r.scaled
	all := make([]int, len(contentKinds))
	for i := range all {
		all[i] = i
	}
	ctx.Group("scaled/content/line-ends/2-records/cuts<=2")
	product(2, all, func(ks []int) { r.stream(d, false, buildContentStream(ks), 2) })
	if thorough {
		ctx.Group("scaled/content/line-ends/3-records/cuts<=2")
		product(3, all, func(ks []int) { r.stream(d, false, buildContentStream(ks), 2) })
	}

	// all 256 byte values at eight content positions of the stream  S  M(1 continuation)  S  (thorough: 2 cuts at the four
	// line-end positions, where a normalisation is likeliest)
	ctx.Group("scaled/content/byte-sweep/cuts<=1")
	if thorough {
		ctx.Group("scaled/content/byte-sweep/cuts<=1(line-ends:2)")
	}
	a, mh, mc, b := head(0, 40), head(1, 40), " c1-1", head(2, 41)
	for pos := 0; pos < 8; pos++ {
		for v := 0; v < 256; v++ {
			if ctx.Stop() {
				return
			}
			x := string([]byte{byte(v)})
			var text string
			switch pos {
			case 0: // last byte of a single-line record
				text = a + x + "\n" + mh + "\n" + mc + "\n" + b + "\n"
			case 1: // last byte of the head line of a multi-line record
				text = a + "\n" + mh + x + "\n" + mc + "\n" + b + "\n"
			case 2: // last byte of a continuation line
				text = a + "\n" + mh + "\n" + mc + x + "\n" + b + "\n"
			case 3: // first byte of a continuation line
				text = a + "\n" + mh + "\n" + x + mc + "\n" + b + "\n"
			case 4: // a line of its own behind the continuation line
				text = a + "\n" + mh + "\n" + mc + "\n" + x + "\n" + b + "\n"
			case 5: // a line of its own directly behind a head
				text = a + "\n" + x + "\n" + mh + "\n" + mc + "\n" + b + "\n"
			case 6: // last byte of the stream's last line (emitted by FlushAll)
				text = a + "\n" + mh + "\n" + mc + "\n" + b + x + "\n"
			case 7: // inside the body of a head line
				text = a[:20] + x + a[21:] + "\n" + mh + "\n" + mc + "\n" + b + "\n"
			}
			maxCuts := 1
			if thorough && (pos <= 2 || pos == 6) {
				maxCuts = 2
			}
			r.stream(d, false, newStream(fmt.Sprintf("cbyte/pos%d/%02x", pos, v), text), maxCuts)
		}
	}
}

// limitEdgeGroups: records whose length including the final newline is 62, 63 and exactly the soft limit 64.
func (r *runner) limitEdgeGroups(thorough bool) {
	ctx := r.ctx
	d := r.scaled
	ctx.Group("scaled/limit-edge/records-of-62..64/cuts<=2")
	single := func(i, total int) string { return head(i, total-1) + "\n" }
	multi := func(i, total int) string {
		t := head(i, 40) + "\n"
		c := " c"
		for len(t)+len(c)+1 < total {
			c += "x"
		}
		return t + c + "\n"
	}
	streams := []*stream{
		newStream("edge:S64,S64,S64", single(0, 64)+single(1, 64)+single(2, 64)),
		newStream("edge:M64,M64,S64", multi(0, 64)+multi(1, 64)+single(2, 64)),
		newStream("edge:S63,M64,S62", single(0, 63)+multi(1, 64)+single(2, 62)),
		newStream("edge:g,S64,M64", "garbage\n"+single(0, 64)+multi(1, 64)),
	}
	if thorough {
		streams = append(streams,
			newStream("edge:S64,M64,M64,S64", single(0, 64)+multi(1, 64)+multi(2, 64)+single(3, 64)),
			newStream("edge:M62,M63,M64", multi(0, 62)+multi(1, 63)+multi(2, 64)),
		)
	}
	for _, s := range streams {
		if s.maxRecord > d.sz.softLimit {
			panic(fmt.Sprintf("construction: %s has a record of %d bytes", s.name, s.maxRecord))
		}
		r.stream(d, false, s, 2)
	}
}

// ------------------------------------------------------------------------------------------------------------------
// two readers alive at the same time

// side is one reader with its own scripted input: two fragments (one cut), an optional flush tick after the first.
type side struct {
	d      *driver
	rd     *tcplistener.VerifMultiLineReader
	s      *stream
	cut    int
	flush  bool
	step   int
	wedge  string
	flushA []int
}

func (x *side) create() {
	if x.rd == nil {
		x.d.begin()
		x.rd = x.d.reader(false)
	}
}

// next performs the side's next operation: read fragment 1 (+ flush), read fragment 2, EOF + FlushAll.
func (x *side) next() {
	x.create()
	if x.wedge != "" {
		return
	}
	switch x.step {
	case 0:
		x.wedge = x.d.feed(x.rd, x.s.text[:x.cut])
		if x.wedge == "" && x.flush {
			x.d.flush(x.rd)
			x.flushA = append(x.flushA, x.cut)
		}
	case 1:
		x.wedge = x.d.feed(x.rd, x.s.text[x.cut:])
	case 2:
		x.wedge = x.d.finish(x.rd)
	}
	x.step++
}

func (r *runner) twoReaderGroups(thorough bool) {
	ctx := r.ctx
	dx := &driver{sz: sizes{"scaled", 192, 64}}
	dy := &driver{sz: sizes{"scaled", 192, 64}}
	sSS := buildStream(0, []int{0, 0})
	sSM := buildStream(0, []int{0, 1})
	sNS := buildStream(0, []int{2, 0})
	pairs := [][2]*stream{{sSS, sSM}, {sSM, sSS}, {sSM, sNS}}
	if thorough {
		pairs = append(pairs, [2]*stream{sSS, sSS}, [2]*stream{sNS, sSM}, [2]*stream{sNS, sNS}, [2]*stream{sSM, sSM})
	}
	// the 20 interleavings of two 3-operation scripts: bit i of il = 1 means operation i of the merged sequence is Y's
	var ils []uint
	for il := uint(0); il < 64; il++ {
		n := 0
		for b := uint(0); b < 6; b++ {
			n += int(il >> b & 1)
		}
		if n == 3 {
			ils = append(ils, il)
		}
	}
	ctx.Group("scaled/two-readers/1-cut-each/all-interleavings")
	for _, p := range pairs {
		sx, sy := p[0], p[1]
		for cx := 1; cx < len(sx.text); cx++ {
			for cy := 1; cy < len(sy.text); cy++ {
				if ctx.Stop() {
					return
				}
				for fl := 0; fl < 4; fl++ {
					for _, il := range ils {
						for _, eager := range []bool{true, false} {
							if !ctx.Mine() {
								ctx.Skip()
								continue
							}
							cx, cy, fl, il, eager := cx, cy, fl, il, eager
							id := fmt.Sprintf("two/%s+%s/cx%d/cy%d/flush%02b/order%06b/eager=%v", sx.name, sy.name, cx, cy, fl, il, eager)
							ctx.Case(id, true, "", func() (string, string) {
								x := &side{d: dx, s: sx, cut: cx, flush: fl&1 == 1}
								y := &side{d: dy, s: sy, cut: cy, flush: fl&2 == 2}
								if eager { // both connections are open before either sends
									x.create()
									y.create()
								}
								for b := uint(0); b < 6; b++ {
									if il>>b&1 == 1 {
										y.next()
									} else {
										x.next()
									}
								}
								for _, z := range []*side{x, y} {
									mask := uint(0)
									if z.flush {
										mask = 1
									}
									key, msg := judge(z.d, z.s, z.d.units, z.flushA, z.wedge, mask, false)
									if key == "" {
										continue
									}
									key = "two-readers:" + key
									if r.seen[key] {
										return key, ""
									}
									r.seen[key] = true
									return key, msg + fmt.Sprintf("\n  two readers alive at the same time, operations interleaved (bit i of %06b = 1: operation i is reader Y's; each reader: read fragment 1 [flush], read fragment 2, EOF+FlushAll)\n  X: stream=%q cut=%d flush=%v emitted %s\n  Y: stream=%q cut=%d flush=%v emitted %s",
										il, x.s.text, x.cut, x.flush, show(x.d.units), y.s.text, y.cut, y.flush, show(y.d.units))
								}
								return "", ""
							})
						}
					}
				}
			}
		}
	}
}
