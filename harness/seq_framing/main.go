// Command seq_framing decides C08: record framing is independent of TCP segmentation and flush timing.
//
// The real tcplistener.multiLineReader (reached through hooks/tcplistener_export.go, build overlay) is driven with
// operation sequences Read(fragment)* / Flush() / final Read()=EOF + FlushAll(), shaped like runConnection: a flush can
// only happen between two reads. Its output is compared with the line-based reference framer of DESIGN.md A.1.
package main

import (
	"fmt"
	"io"
	"os"
	"strings"
	"time"

	"github.com/relex/gotils/logger"
	"github.com/relex/slog-agent/defs"
	"github.com/relex/slog-agent/input/syslogprotocol"
	"github.com/relex/slog-agent/input/tcplistener"

	"slogverif/seq"
)

// ------------------------------------------------------------------------------------------------------------------
// reference side (DESIGN.md Appendix A.1) - written from the documentation, shares nothing with the code under test

// refIsHead is the documented recogniser: >= 32 bytes, '<', 1-3 digits, ">1 ".
func refIsHead(l string) bool {
	if len(l) < 32 || l[0] != '<' {
		return false
	}
	k := 0
	for k < 3 && l[1+k] >= '0' && l[1+k] <= '9' {
		k++
	}
	if k == 0 {
		return false
	}
	return l[1+k] == '>' && l[2+k] == '1' && l[3+k] == ' '
}

// refHeadClass refines refIsHead where the documentation is silent. The recogniser is documented as "possibly a valid syslog
// record" with the examples <3> and <166>, DESIGN A.1 as "1-3 digits"; RFC 5424 (the protocol the input is documented to
// speak) defines PRI as 0..191 without leading zeros. A head-shaped line with such a PRI MUST be recognised (the property
// quantifies over valid records); a head-shaped line with another 1-3 digit numeral (192..999, leading zeros) may or may
// not be: either answer is accepted. Everything else is not a head.
const (
	headNot = iota
	headMust
	headEither
)

func refHeadClass(l string) int {
	if !refIsHead(l) {
		return headNot
	}
	k := strings.IndexByte(l, '>') // 2..4 by refIsHead
	num := l[1:k]
	if len(num) > 1 && num[0] == '0' {
		return headEither
	}
	v := 0
	for _, c := range num {
		v = v*10 + int(c-'0')
	}
	if v > 191 {
		return headEither
	}
	return headMust
}

type stream struct {
	name       string
	text       string   // newline-terminated
	lines      []string // without newline
	nl         []int    // offset of the newline ending each line
	isHead     []bool
	headOf     []int    // index of the head line a line belongs to, -1 = before the first head
	records    []string // reference records
	pre        string   // lines before the first head, joined (only meaningful if nPre > 0)
	nPre       int      // number of lines before the first head
	singleLine bool     // every line from the first head on is a head
	maxRecord  int      // longest reference unit (records and pre), including its final newline
	headFn     func(string) bool
	// alt is the same stream under the other admissible classification of the lines on which the documentation is silent
	// (head-shaped lines whose PRI numeral RFC 5424 excludes, see refHeadClass); nil if the stream has no such line
	alt *stream
}

// newStream builds the reference for a stream. Lines of class headEither are heads in the primary reference (DESIGN A.1 as
// written) and non-heads in s.alt; a case passes if the outcome satisfies the oracle under either reference.
func newStream(name, text string) *stream {
	s := newStreamWith(name, text, refIsHead)
	for _, l := range s.lines {
		if refHeadClass(l) == headEither {
			s.alt = newStreamWith(name, text, func(l string) bool { return refHeadClass(l) == headMust })
			if s.alt.maxRecord > s.maxRecord {
				s.maxRecord = s.alt.maxRecord
			}
			break
		}
	}
	return s
}

func newStreamWith(name, text string, headFn func(string) bool) *stream {
	if !strings.HasSuffix(text, "\n") {
		panic("stream must be newline-terminated")
	}
	s := &stream{name: name, text: text, singleLine: true, headFn: headFn}
	off := 0
	for off < len(text) {
		e := strings.IndexByte(text[off:], '\n') + off
		s.lines = append(s.lines, text[off:e])
		s.nl = append(s.nl, e)
		off = e + 1
	}
	cur := -1
	first := -1
	for i, l := range s.lines {
		h := headFn(l)
		s.isHead = append(s.isHead, h)
		if h {
			cur = i
			if first < 0 {
				first = i
			}
		} else if cur >= 0 {
			s.singleLine = false
		}
		s.headOf = append(s.headOf, cur)
	}
	if first < 0 {
		panic("stream without records: " + name)
	}
	s.nPre = first
	s.pre = strings.Join(s.lines[:first], "\n")
	if first > 0 && len(s.pre)+1 > s.maxRecord {
		s.maxRecord = len(s.pre) + 1
	}
	start := first
	for i := first + 1; i <= len(s.lines); i++ {
		if i == len(s.lines) || s.isHead[i] {
			r := strings.Join(s.lines[start:i], "\n")
			s.records = append(s.records, r)
			if len(r)+1 > s.maxRecord {
				s.maxRecord = len(r) + 1
			}
			start = i
		}
	}
	return s
}

// ------------------------------------------------------------------------------------------------------------------
// driving the real reader

type sizes struct {
	name      string
	minBuffer int
	softLimit int
}

type driver struct {
	sz      sizes
	rd      *tcplistener.VerifMultiLineReader // reused only for production sizes (4 MB buffer)
	pending []byte
	eof     bool
	zero    bool
	units   []string
	// vacuity counters (per worker process)
	nClipped, nOverflow, nRelocate, nFlushEmit, nFlushKeepPartial, nMultiPerRead int64
}

func (d *driver) read(p []byte) (int, error) {
	if d.eof {
		return 0, io.EOF
	}
	if len(p) == 0 {
		d.zero = true
		return 0, nil
	}
	n := copy(p, d.pending)
	d.pending = d.pending[n:]
	return n, nil
}

func (d *driver) consume(b []byte) { d.units = append(d.units, string(b)) }

func (d *driver) reader(reuse bool) *tcplistener.VerifMultiLineReader {
	if reuse {
		if d.rd == nil {
			d.rd = tcplistener.VerifNewMultiLineReader(d.read, syslogprotocol.TestRecordStart, d.sz.minBuffer, d.sz.softLimit, d.consume)
		}
		d.rd.Reset()
		return d.rd
	}
	return tcplistener.VerifNewMultiLineReader(d.read, syslogprotocol.TestRecordStart, d.sz.minBuffer, d.sz.softLimit, d.consume)
}

// feed delivers one fragment. A fragment larger than the free buffer space is delivered by several Read calls (a socket
// read never returns more than the space offered). Returns a wedge class or "".
func (d *driver) feed(r *tcplistener.VerifMultiLineReader, frag string) string {
	d.pending = []byte(frag)
	for len(d.pending) > 0 {
		before := len(d.pending)
		_, app0, _ := r.Offsets()
		nu := len(d.units)
		if err := r.Read(); err != nil {
			return "read-error"
		}
		if d.zero || len(d.pending) == before {
			return "no-buffer-space"
		}
		if len(d.pending) > 0 {
			d.nClipped++
		}
		if _, app1, _ := r.Offsets(); app1 == 0 {
			d.nOverflow++
		} else if app1 < app0+before-len(d.pending) {
			d.nRelocate++
		}
		if len(d.units) >= nu+2 {
			d.nMultiPerRead++
		}
	}
	return ""
}

// flush is one flush tick between two reads.
func (d *driver) flush(r *tcplistener.VerifMultiLineReader) {
	nu := len(d.units)
	r.Flush()
	if len(d.units) > nu {
		d.nFlushEmit++
	}
	if _, app1, _ := r.Offsets(); app1 > 0 {
		d.nFlushKeepPartial++
	}
}

// finish signals EOF and calls FlushAll, as runConnection does when the peer closes.
func (d *driver) finish(r *tcplistener.VerifMultiLineReader) string {
	d.eof = true
	if err := r.Read(); err != io.EOF {
		return "eof-not-returned"
	}
	r.FlushAll()
	return ""
}

func (d *driver) begin() {
	d.units = d.units[:0]
	d.eof, d.zero = false, false
}

// run feeds the fragments text[0:cuts[0]], text[cuts[0]:cuts[1]], ..., flushes after fragment i iff mask bit i, then
// signals EOF and calls FlushAll. Returns the emitted units and the stream offsets of flushes.
func (d *driver) run(text string, cuts []int, mask uint, reuse bool) (units []string, flushAt []int, wedge string) {
	d.begin()
	r := d.reader(reuse)
	prev := 0
	for i := 0; i <= len(cuts); i++ {
		end := len(text)
		if i < len(cuts) {
			end = cuts[i]
		}
		if w := d.feed(r, text[prev:end]); w != "" {
			return nil, nil, w
		}
		prev = end
		if mask>>uint(i)&1 == 1 {
			d.flush(r)
			flushAt = append(flushAt, end)
		}
	}
	if w := d.finish(r); w != "" {
		return nil, nil, w
	}
	return d.units, flushAt, ""
}

// ------------------------------------------------------------------------------------------------------------------
// oracles

func eqStrings(a, b []string) bool {
	if len(a) != len(b) {
		return false
	}
	for i := range a {
		if a[i] != b[i] {
			return false
		}
	}
	return true
}

func show(u []string) string {
	parts := make([]string, len(u))
	for i, s := range u {
		parts[i] = fmt.Sprintf("%q", s)
	}
	return "[" + strings.Join(parts, ", ") + "]"
}

// checkEqual: the emitted sequence must be exactly the reference records. Lines before the first head are "not
// compared": without flushes they may be absent or be one unit holding exactly those lines; with flushes (single-line
// streams) any leading units that do not begin with a head are dropped here (checkMapping still accounts for their bytes).
func checkEqual(s *stream, units []string, flushed bool) bool {
	u := units
	if s.nPre > 0 {
		if !flushed {
			if len(u) == len(s.records)+1 && u[0] == s.pre {
				u = u[1:]
			}
		} else {
			for len(u) > 0 && !s.headFn(strings.SplitN(u[0], "\n", 2)[0]) {
				u = u[1:]
			}
		}
	}
	return eqStrings(u, s.records)
}

// checkMapping is the general oracle: the units are disjoint, increasing runs of whole lines of the stream; every head
// line is delivered exactly once and starts its unit; a non-head line is in the unit of its head unless a Flush fell
// between the arrival of the head's newline and the arrival of its own newline (then: attached, separate or rejected).
func checkMapping(s *stream, units []string, flushAt []int) (string, string) {
	covered := make([]int, len(s.lines))
	firstOf := make([]int, len(units)+1)
	next := 0
	for ui, u := range units {
		ul := strings.Split(u, "\n")
		a := -1
		for c := next; c+len(ul) <= len(s.lines); c++ {
			ok := true
			for j := range ul {
				if s.lines[c+j] != ul[j] {
					ok = false
					break
				}
			}
			if ok {
				a = c
				break
			}
		}
		if a < 0 {
			// classify for a more useful key
			cls := "unit-not-whole-lines"
			for c := 0; c+len(ul) <= len(s.lines) && c < next; c++ {
				ok := true
				for j := range ul {
					if s.lines[c+j] != ul[j] {
						ok = false
						break
					}
				}
				if ok {
					cls = "unit-repeated-or-reordered"
					break
				}
			}
			return cls, fmt.Sprintf("emitted unit #%d %q is not a run of whole stream lines after the previous unit", ui, u)
		}
		for j := range ul {
			covered[a+j] = ui + 1
		}
		firstOf[ui+1] = a
		next = a + len(ul)
	}
	for i := range s.lines {
		if s.isHead[i] {
			if covered[i] == 0 {
				return "head-lost", fmt.Sprintf("record head (line %d) %q was never delivered", i, s.lines[i])
			}
			if firstOf[covered[i]] != i {
				return "records-merged", fmt.Sprintf("record head (line %d) %q was delivered inside the unit of an earlier line", i, s.lines[i])
			}
			continue
		}
		h := s.headOf[i]
		if h < 0 {
			continue
		}
		separated := false
		for _, p := range flushAt {
			if s.nl[h] < p && p <= s.nl[i] {
				separated = true
				break
			}
		}
		if !separated && covered[i] != covered[h] {
			if covered[i] == 0 {
				return "continuation-lost", fmt.Sprintf("line %d %q follows its head without a flush pause in between but was not delivered", i, s.lines[i])
			}
			return "continuation-detached", fmt.Sprintf("line %d %q follows its head without a flush pause in between but was delivered in another unit", i, s.lines[i])
		}
	}
	return "", ""
}

// checkWeak is used for streams holding a record longer than the soft limit (the documentation allows cutting such
// records: "soft limit ... may be oversized", "the rest of it is cut off"; the cut can also hit the line that is
// arriving at that moment, i.e. the record directly after it): the units must be disjoint, increasing byte ranges of
// the stream (nothing duplicated, nothing invented, nothing reordered), and every record before the over-limit record
// and every record from the second one after it must be delivered exactly once, whole.
func checkWeak(s *stream, units []string, softLimit int) (string, string) {
	pos := 0
	for ui, u := range units {
		j := strings.Index(s.text[pos:], u)
		if j < 0 {
			return "overlimit:unit-not-in-order-substring", fmt.Sprintf("unit #%d %q is not a substring of the rest of the stream", ui, u)
		}
		pos += j + len(u)
	}
	over := -1
	for i, r := range s.records {
		if len(r)+1 > softLimit {
			over = i
			break
		}
	}
	for i, r := range s.records {
		if i == over || i == over+1 {
			continue
		}
		n := 0
		for _, u := range units {
			if u == r {
				n++
			}
		}
		if n != 1 {
			cls := "overlimit:record-before-not-exact"
			if i > over {
				cls = "overlimit:record-after-next-not-exact"
			}
			return cls, fmt.Sprintf("record #%d %q (not adjacent-after the over-limit record #%d) delivered %d times as a whole unit", i, r, over, n)
		}
	}
	return "", ""
}

// ------------------------------------------------------------------------------------------------------------------
// stream construction

var pris = []string{"<3>", "<13>", "<163>"}

// head builds a distinct head line of exactly n bytes (n >= 36).
func head(idx, n int) string {
	// every second record carries the NILVALUE timestamp "-" (valid RFC 5424, accepted by the parser): what follows "<PRI>1 "
	// is not part of the documented record-start test
	ts := fmt.Sprintf("2020-01-0%dT00:00:0%dZ", idx+1, idx)
	if idx%2 == 1 {
		ts = "-"
	}
	l := fmt.Sprintf("%s1 %s h%d a 1 m%d - ", pris[idx%3], ts, idx, idx)
	if len(l) > n {
		panic(fmt.Sprintf("head too long for %d: %d", n, len(l)))
	}
	for len(l) < n {
		l += string(rune('A' + idx))
	}
	return l
}

// kinds of records; every record (with its continuation lines and final newline) is at most 61 bytes
type kind struct {
	code  string
	build func(idx int) string // newline-terminated
}

var kinds = []kind{
	{"S", func(i int) string { return head(i, 40+i) + "\n" }},                                     // single line
	{"M", func(i int) string { return head(i, 40) + "\n" + fmt.Sprintf(" at line%d", i) + "\n" }}, // one continuation
	{"N", func(i int) string {
		return head(i, 40) + "\n" + fmt.Sprintf(" c%d-1", i) + "\n" + fmt.Sprintf("\tc%d-2", i) + "\n"
	}}, // two continuations
	{"G", func(i int) string { return head(i, 41) + "\n" + fmt.Sprintf("<13>1 garbage%d", i) + "\n" }}, // garbage line shaped like a head prefix
	{"E", func(i int) string { return head(i, 42) + "\n\n" }},                                          // empty line after the record
	{"X", func(i int) string { return head(i, 40) + "\n\n" + fmt.Sprintf("x%d", i) + "\n" }},           // empty line inside a multi-line record
}

var prefixes = []struct{ code, text string }{
	{"", ""},
	{"g", "garbage before\n"},
	{"e", "\n"},
	{"gg", "<13>1 short\nsecond junk\n"},
}

func buildStream(prefix int, ks []int) *stream {
	var sb strings.Builder
	name := prefixes[prefix].code + ":"
	sb.WriteString(prefixes[prefix].text)
	for i, k := range ks {
		sb.WriteString(kinds[k].build(i))
		name += kinds[k].code
	}
	return newStream(name, sb.String())
}

// product enumerates all sequences of length n over kinds[allowed], in lexicographic order.
func product(n int, allowed []int, f func(ks []int)) {
	idx := make([]int, n)
	ks := make([]int, n)
	for {
		for i, x := range idx {
			ks[i] = allowed[x]
		}
		f(ks)
		i := n - 1
		for i >= 0 {
			idx[i]++
			if idx[i] < len(allowed) {
				break
			}
			idx[i] = 0
			i--
		}
		if i < 0 {
			return
		}
	}
}

// ------------------------------------------------------------------------------------------------------------------

type runner struct {
	ctx    *seq.Ctx
	scaled *driver
	mid    *driver // soft limit 128 / buffer 384: for streams whose doubtful line may merge two records' worth of bytes
	prod   *driver
	seen   map[string]bool // violation keys already described in this process (seq keeps the first message per key)
}

// runCase evaluates one (stream, cuts, mask) under one size profile.
func (r *runner) runCase(d *driver, reuse bool, s *stream, cuts []int, mask uint, overLimit bool) {
	ctx := r.ctx
	if !ctx.Mine() {
		ctx.Skip()
		return
	}
	cc := append([]int(nil), cuts...)
	id := fmt.Sprintf("%s/%s/cuts%v/flush%b", d.sz.name, s.name, cc, mask)
	ctx.Case(id, len(cc) > 0 || mask != 0, "", func() (string, string) {
		before := d.nOverflow
		units, flushAt, wedge := d.run(s.text, cc, mask, reuse)
		key, msg := judge(d, s, units, flushAt, wedge, mask, overLimit)
		if key == "" && !overLimit && d.nOverflow != before && assertNoOverflow {
			key, msg = "diag:overflow-handling-ran-for-within-limit-records", "checkOverflow reset the buffer although every record is within the soft limit"
		}
		if key == "" {
			return "", ""
		}
		if r.seen[key] { // seq keeps the first message per key: do not format millions of them when a regression breaks everything
			return key, ""
		}
		r.seen[key] = true
		return key, msg + fmt.Sprintf("\n  sizes=%s stream=%q cuts=%v flushes after fragments (bitmask, bit i = after fragment i)=%b\n  emitted  %s\n  reference %s",
			d.sz.name, s.text, cc, mask, show(units), show(s.records))
	})
}

// assertNoOverflow (SEQ_FRAMING_ASSERT_NO_OVERFLOW=1) turns the design fact "records within the soft limit never reach
// the overflow handling" into a reported class; a diagnostic, not part of the property.
var assertNoOverflow = os.Getenv("SEQ_FRAMING_ASSERT_NO_OVERFLOW") != ""

// judge applies the oracles to the outcome of one case; where the documentation admits two classifications of a line
// (s.alt) the outcome only has to satisfy one of the two references.
func judge(d *driver, s *stream, units []string, flushAt []int, wedge string, mask uint, overLimit bool) (string, string) {
	k, m := judge1(d, s, units, flushAt, wedge, mask, overLimit)
	if k != "" && s.alt != nil && wedge == "" {
		if k2, _ := judge1(d, s.alt, units, flushAt, wedge, mask, overLimit); k2 == "" {
			return "", ""
		}
	}
	return k, m
}

func judge1(d *driver, s *stream, units []string, flushAt []int, wedge string, mask uint, overLimit bool) (string, string) {
	if wedge != "" {
		return "wedge:" + wedge, "the reader could not take the next fragment"
	}
	if overLimit {
		return checkWeak(s, units, d.sz.softLimit)
	}
	if mask == 0 {
		if !checkEqual(s, units, false) {
			return "noflush:record-sequence-differs", "without any flush the records must equal the reference for every fragmentation"
		}
	} else if s.singleLine {
		if !checkEqual(s, units, true) {
			return "singleline-flush:record-sequence-differs", "a stream of single-line records must be framed identically under every flush placement"
		}
	}
	if k, m := checkMapping(s, units, flushAt); k != "" {
		if mask == 0 {
			return "noflush:" + k, m
		}
		return "flush:" + k, m
	}
	return "", ""
}

// allCuts enumerates all k-cut fragmentations (k strictly increasing cut offsets in 1..len-1) x all 2^(k+1) flush masks.
func (r *runner) allCuts(d *driver, reuse bool, s *stream, k int, overLimit bool) {
	n := len(s.text)
	cuts := make([]int, k)
	var rec func(depth, from int)
	rec = func(depth, from int) {
		if r.ctx.Stop() {
			return
		}
		if depth == k {
			for mask := uint(0); mask < 1<<uint(k+1); mask++ {
				r.runCase(d, reuse, s, cuts, mask, overLimit)
			}
			return
		}
		for c := from; c <= n-(k-depth); c++ {
			cuts[depth] = c
			rec(depth+1, c+1)
		}
	}
	rec(0, 1)
}

func (r *runner) stream(d *driver, reuse bool, s *stream, maxCuts int) {
	over := s.maxRecord > d.sz.softLimit
	for k := 0; k <= maxCuts; k++ {
		r.allCuts(d, reuse, s, k, over)
	}
}

func enumerate(ctx *seq.Ctx) {
	prodSizes := sizes{"prod", defs.ListenerLineBufferSize, defs.InputLogMaxRecordBytes}
	r := &runner{ctx: ctx, seen: map[string]bool{},
		scaled: &driver{sz: sizes{"scaled", 192, 64}},
		mid:    &driver{sz: sizes{"mid", 384, 128}},
		prod:   &driver{sz: prodSizes},
	}
	all := []int{0, 1, 2, 3, 4, 5}
	some := []int{0, 2, 3} // S, N, G
	thorough := ctx.Thorough()

	// sanity of the construction (same in every process): every record within the scaled limit
	maxRec := 0
	product(4, all, func(ks []int) {
		s := buildStream(3, ks)
		if s.maxRecord > maxRec {
			maxRec = s.maxRecord
		}
		if len(s.records) != 4 {
			panic("construction: expected 4 reference records in " + s.name)
		}
	})
	if maxRec > 61 {
		panic(fmt.Sprintf("construction: a record of %d bytes exceeds the intended 61", maxRec))
	}
	ctx.Note("longest_reference_record_bytes_incl_newline", fmt.Sprint(maxRec))

	// ---- scaled sizes: 2- and 3-record streams over all six kinds, all 0/1/2-cut fragmentations x all flush masks
	for _, n := range []int{2, 3} {
		pfx := []int{0, 1}
		if thorough {
			pfx = []int{0, 1, 2, 3}
		}
		for _, p := range pfx {
			ctx.Group(fmt.Sprintf("scaled/%d-records/prefix-%q/all-kinds/cuts<=2", n, prefixes[p].code))
			product(n, all, func(ks []int) { r.stream(r.scaled, false, buildStream(p, ks), 2) })
		}
	}
	// ---- scaled sizes: 4-record streams
	if thorough {
		for _, p := range []int{0, 1} {
			ctx.Group(fmt.Sprintf("scaled/4-records/prefix-%q/all-kinds/cuts<=2", prefixes[p].code))
			product(4, all, func(ks []int) { r.stream(r.scaled, false, buildStream(p, ks), 2) })
		}
	} else {
		ctx.Group("scaled/4-records/prefix-\"\"/kinds-S,N,G/cuts<=2")
		product(4, some, func(ks []int) { r.stream(r.scaled, false, buildStream(0, ks), 2) })
	}
	// ---- 3-cut fragmentations of the two shortest streams (one single-line only, one with a multi-line record)
	ctx.Group("scaled/2-records/shortest-two/cuts=3")
	r.allCuts(r.scaled, false, buildStream(0, []int{0, 0}), 3, false)
	r.allCuts(r.scaled, false, buildStream(0, []int{0, 1}), 3, false)
	if thorough {
		ctx.Group("scaled/3-records/SMS,gSN/cuts=3")
		r.allCuts(r.scaled, false, buildStream(0, []int{0, 1, 0}), 3, false)
		r.allCuts(r.scaled, false, buildStream(1, []int{0, 2}), 3, false)
	}
	// ---- production sizes (InputLogMaxRecordBytes, ListenerLineBufferSize as shipped)
	ctx.Group("prod/2-records/all-kinds/cuts<=2")
	for _, p := range []int{0, 1} {
		product(2, all, func(ks []int) { r.stream(r.prod, true, buildStream(p, ks), 2) })
	}
	if thorough {
		ctx.Group("prod/3-records/all-kinds/cuts<=2")
		for _, p := range []int{0, 1} {
			product(3, all, func(ks []int) { r.stream(r.prod, true, buildStream(p, ks), 2) })
		}
		ctx.Group("prod/4-records/kinds-S,N,G/cuts<=2")
		product(4, some, func(ks []int) { r.stream(r.prod, true, buildStream(0, ks), 2) })
	} else {
		ctx.Group("prod/3-records/kinds-S,N,G/cuts<=2")
		product(3, some, func(ks []int) { r.stream(r.prod, true, buildStream(0, ks), 2) })
	}
	// ---- records longer than the soft limit (scaled sizes): weaker oracle
	ctx.Group("scaled/over-limit/weak-oracle/cuts<=2")
	for _, s := range overLimitStreams() {
		r.stream(r.scaled, false, s, 2)
	}
	// ---- dimensions added after the red-team review (extra.go)
	r.recogniserGroups(thorough)
	r.contentGroups(thorough)
	r.limitEdgeGroups(thorough)
	r.twoReaderGroups(thorough)
	for _, d := range []*driver{r.scaled, r.mid, r.prod} {
		ctx.Note("reached_in_one_worker_process/"+d.sz.name, fmt.Sprintf("reads clipped by buffer space=%d, overflow resets=%d, reads that relocated the tail=%d, reads emitting >=2 records=%d, flushes that emitted a record=%d, flushes that kept a partial line=%d",
			d.nClipped, d.nOverflow, d.nRelocate, d.nMultiPerRead, d.nFlushEmit, d.nFlushKeepPartial))
	}
}

// overLimitStreams: two within-limit records, a record longer than the soft limit of 64 (multi-line of 97, 153 and 250
// bytes - the last one longer than the 192-byte buffer - or one line of 150 bytes), two within-limit records.
func overLimitStreams() []*stream {
	long := func(i, nCont int) string {
		t := head(i, 40) + "\n"
		for j := 0; j < nCont; j++ {
			t += fmt.Sprintf(" continuation %d-%02d xxxxxxxx", i, j) + "\n"
		}
		return t
	}
	wrap := func(name, mid string) *stream {
		return newStream(name, head(0, 40)+"\n"+head(1, 41)+"\n"+mid+head(3, 40)+"\n"+head(4, 41)+"\n")
	}
	return []*stream{
		wrap("over:SS-L2-SS", long(2, 2)),
		wrap("over:SS-L4-SS", long(2, 4)),
		wrap("over:SS-L7-SS", long(2, 7)),
		wrap("over:SS-line150-SS", head(2, 150)+"\n"),
	}
}

// diag prints, for the over-limit streams, the distinct outcomes over all 0/1/2-cut fragmentations without flushes
// (SEQ_FRAMING_DIAG=1; not part of the check).
func diag() {
	d := &driver{sz: sizes{"scaled", 192, 64}}
	for _, s := range overLimitStreams() {
		outcomes := map[string]int{}
		order := []string{}
		n := len(s.text)
		try := func(cuts []int) {
			units, _, w := d.run(s.text, cuts, 0, false)
			k := w + show(units)
			if outcomes[k] == 0 {
				order = append(order, fmt.Sprintf("%v -> %s", cuts, k))
			}
			outcomes[k]++
		}
		try(nil)
		for a := 1; a < n; a++ {
			try([]int{a})
			for b := a + 1; b < n; b++ {
				try([]int{a, b})
			}
		}
		fmt.Printf("== %s (len %d, longest record %d): %d distinct outcomes\n", s.name, n, s.maxRecord, len(outcomes))
		for _, o := range order {
			fmt.Println("   ", o)
		}
	}
}

func main() {
	logger.SetLogLevel(logger.ErrorLevel)
	if os.Getenv("SEQ_FRAMING_DIAG") != "" {
		diag()
		return
	}
	seq.Main(&seq.Config{
		Property: "C08",
		Level:    "exploration",
		Rule: "the real multiLineReader driven by Read(fragment)/Flush()/EOF+FlushAll() sequences with flushes only between reads; streams = every sequence of 2-3 (thorough: 2-4; quick: 4 over three kinds) records over six kinds " +
			"(single line; 1 and 2 continuation lines; head-prefix-shaped garbage line; trailing empty line; empty line inside a multi-line record) with 2 (thorough 4) kinds of garbage before the first record; " +
			"for each stream ALL 0-, 1- and 2-cut fragmentations (all 3-cut ones for the two shortest streams; thorough: four streams) x ALL 2^(#fragments) flush placements; reader sizes soft limit 64 / buffer 192 " +
			"(records 41-61 bytes, so relocation runs on almost every read and buffer-clipped reads occur) and the shipped sizes; four streams with an over-limit record under a weaker oracle; " +
			"recogniser through the framer (a line between / before / behind two ordinary records, sizes 128/384): head-shaped lines of 28..36 bytes x three PRI widths x three placements, every PRI numeral 0..999 and 21 other spellings, " +
			"ALL 256 byte values at every role position of '<' DIGITS '>1 ' and the byte behind it (cuts <= 1-2, all flush masks); content: streams over eight kinds of line ends / line bodies (CR LF, mixed, CR-only line, trailing blank / TAB, NUL) " +
			"with cuts <= 2 and ALL 256 byte values at eight content positions (cuts <= 1; thorough 2); records of 62..64 bytes (the soft limit) under the strict oracle; " +
			"two readers alive at the same time: every cut of each of two streams x optional flush x ALL 20 interleavings of their operation sequences, each judged against its own reference; " +
			"oracle = line-based reference framer of DESIGN A.1; non-trivial = at least one cut or one flush",
		Assumptions: []string{
			"lines before the first record head are not compared: they may be delivered as units of their own (whole lines, in order, once) or rejected",
			"a non-head line separated from its head by a flush (flush after the head's newline arrived and before its own newline arrived) may be attached, delivered separately or rejected by the framer; the statement only requires attachment when no flush pause separates them",
			"a fragment larger than the free buffer space is delivered by consecutive Read calls without a flush in between (a socket read never returns more than the space offered)",
			"records longer than the soft limit may be cut (documented: 'soft limit', 'the rest of it is cut off'); for streams holding one, only no panic / no wedge, units being disjoint increasing byte ranges of the stream, and exact delivery of the records not adjacent to it from before are required",
			"flush ticks are modelled as Flush() calls between reads; the timing logic of NetConnWrapper and the choice of the flush function in runConnection are decided by part 2 (seq_listener -prop C08)",
			"a head-shaped line whose 1-3 digit PRI numeral RFC 5424 excludes (192..999, leading zeros) may or may not be recognised as a record start: the case passes if the outcome satisfies the oracle under either classification; PRI 0..191 without leading zeros must be recognised from 32 bytes on",
			"bytes other than the newline are content: only the final newline is documented as not being part of a record, so CR, blanks, NUL at line ends must come out unchanged on every emit path",
			"two readers model two connections: they are driven from one goroutine (shared state between instances is visible without real concurrency; data races are not in scope here)",
		},
		Enumerate:        enumerate,
		QuickDeadline:    20 * time.Minute, // a safety net only: machine load must not silently drop the groups enumerated last
		ThoroughDeadline: 45 * time.Minute,
	})
}
