package main

import (
	"fmt"
	"strings"
)

// Dimensions added after the red-team review of C07 (see README): field lengths at the width boundaries of the encoders and
// at every documented size limit (D), the units the real framer emits (E), feature-rich / pooled neighbours whose whole
// content is judged, with the flush tick at both places (F), and short lines without any tail (C2, C3).

// sentinel sets whose content exercises the pipeline (see richMessages)
var (
	// class + task (pnum key) + vhost: the sentinels' own key set has every extraction of the sample configuration
	richA = newSentinelsWith("richA", "<13>1 2020-01-01T00:00:01Z sentHost sentApp/vhost.example.com 1 sent.log:0123abcd-ef - ", richMessages)
	// app=appServ, no task: the branch of the sample configuration that redacts e-mail addresses in place
	richB = newSentinelsWith("richB", "<11>1 2020-01-01T00:00:01Z sentHost appServ 1 main.log - ", richMessages)
	// the same with bodies beyond InputLogMinRecordBytesToPool: the sentinels live in recycled pooled buffers
	richL = newSentinelsWith("richL", "<11>1 2020-01-01T00:00:01Z sentHost appServ 1 main.log - ", longMessages)
)

func init() {
	for _, m := range richMessages {
		if len(m) > 64 {
			panic(fmt.Sprintf("rich sentinel message of %d bytes does not fit the scaled message limit: %s", len(m), m))
		}
	}
	for _, m := range longMessages {
		if len(m) <= 1024 {
			panic("long sentinel message is not beyond the pooling threshold")
		}
	}
}

// nextIdx advances a mixed-radix counter over the menus; false when it wraps around.
func nextIdx(ms []menu, idx []int) bool {
	i := len(idx) - 1
	for i >= 0 {
		idx[i]++
		if idx[i] < len(ms[i].opts) {
			return true
		}
		idx[i] = 0
		i--
	}
	return false
}

func deviations(idx []int) (dev int) {
	for _, x := range idx {
		if x != 0 {
			dev++
		}
	}
	return dev
}

// ------------------------------------------------------------------------------------------------------------------
// (F) the menus of (A), all combinations with at most k non-normal tokens, between feature-rich sentinels, both shapes

func enumRich(h *harness) {
	ctx := h.ctx
	type combo struct {
		lim    limits
		st     *sentinels
		maxDev int
	}
	combos := []combo{{scaled, richA, 3}, {scaled, richB, 3}, {prod, richA, 2}, {prod, richB, 2}, {prod, richL, 2}}
	if ctx.Thorough() {
		combos = []combo{{scaled, richA, 4}, {scaled, richB, 4}, {prod, richA, 3}, {prod, richB, 3}, {prod, richL, 3}}
	}
	for _, cb := range combos {
		ms := menus(cb.lim, cb.st)
		for shape := 0; shape <= 1; shape++ {
			ctx.Group(fmt.Sprintf("F/rich-neighbours/%s/%s/shape%d/at-most-%d-deviations", cb.lim.name, cb.st.name, shape, cb.maxDev))
			idx := make([]int, len(ms))
			for {
				if ctx.Stop() {
					return
				}
				if deviations(idx) <= cb.maxDev {
					if ctx.Mine() {
						at := append([]int(nil), idx...)
						n := len(ms) - 1
						for i, m := range ms {
							n += len(m.opts[idx[i]])
						}
						h.runShape(fmt.Sprintf("F/%s/%s/s%d/%s", cb.lim.name, cb.st.name, shape, menuID(ms, idx)), cb.lim, cb.st, shape, n >= 32,
							func() string { return buildRecord(ms, at) })
					} else {
						ctx.Skip()
					}
				}
				if !nextIdx(ms, idx) {
					break
				}
			}
		}
	}
}

// ------------------------------------------------------------------------------------------------------------------
// (D) one token of a length at a boundary x at most one other non-normal token

type lengthOpt struct {
	tag   string
	token int // index into the menus: 0 pri, 1 ts, 2 host, 3 app, 4 pid, 5 msgid, 6 sd, 7 msg
	build func() string
	big   bool // 256 KiB or more: the quick tier combines it with normal tokens only
}

func rep(c string, n int) string {
	if n < 0 {
		n = 0
	}
	return strings.Repeat(c, n)
}

// lengthOpts: (1) every token at the width boundaries of the output encoders (msgpack fixstr / str8 / str16 / str32: 15|16,
// 31|32, 255|256, 65535|65536|65537), the message also with an escape sequence (serialized length = reserved length - 1),
// with an extracted class (put back by the serializer) and in 3-byte runes; (2) messages around and far beyond the message
// limit L, up to the largest unit the framer can hand over (ListenerLineBufferSize = 4 x (L+256)); (3) whole records of
// exactly InputLogMaxRecordBytes -1/0/+1; (4) shipped limits: whole records of 2^n -1/0/+1 bytes, n = 10..21 (the pooling
// threshold InputLogMinRecordBytesToPool = 2^10 and every size class of the buffer pool).
func lengthOpts(lim limits, st *sentinels) []lengthOpt {
	var o []lengthOpt
	add := func(tag string, token int, build func() string) { o = append(o, lengthOpt{tag, token, build, false}) }
	addN := func(tag string, n int, build func() string) { o = append(o, lengthOpt{tag, 7, build, n >= 256*1024}) }
	for _, w := range []int{15, 16, 31, 32, 255, 256, 65535, 65536, 65537} {
		w := w
		add(fmt.Sprintf("host%d", w), 2, func() string { return rep("h", w) })
		add(fmt.Sprintf("app%d", w), 3, func() string { return rep("a", w) })
		add(fmt.Sprintf("vhost%d", w), 3, func() string { return "sentApp/" + rep("v", w) })
		add(fmt.Sprintf("msgid%d", w), 5, func() string { return rep("s", w) })
		add(fmt.Sprintf("pid%d", w), 4, func() string { return rep("7", w) })
		add(fmt.Sprintf("sd%d", w), 6, func() string { return "[" + rep("x", w-2) + "]" })
		add(fmt.Sprintf("msg%d", w), 7, func() string { return rep("m", w) })
		add(fmt.Sprintf("msg%d-with-escape", w), 7, func() string { return rep("m", w-2) + `\n` })
		add(fmt.Sprintf("msg%d-after-unescape", w), 7, func() string { return rep("m", w-1) + `\n` })
		add(fmt.Sprintf("msg%d-with-class", w), 7, func() string { return "[Cls] - " + rep("m", w-len("class=Cls ")) })
		add(fmt.Sprintf("msg%d-runes", w), 7, func() string { return rep("€", w/3) + rep("m", w%3) })
	}
	L := lim.maxMessage
	R := L + 256
	for _, n := range []int{L + 255, L + 256, L + 257, 2 * L, 3 * L, 4 * R} {
		n := n
		addN(fmt.Sprintf("msg-limit+%d", n-L), n, func() string { return rep("m", n) })
	}
	addN("msg-rune-across-limit-long-rest", L, func() string { return rep("m", L-1) + "€" + rep("m", 300) })
	addN("msg-escapes-beyond-limit", 2*L, func() string { return rep(`\n`, L) })
	hdr := len(strings.Join(st.tok, " ")) + 1
	for _, t := range []int{R - 1, R, R + 1} {
		t := t
		addN(fmt.Sprintf("record-limit%+d", t-R), t, func() string { return rep("m", t-hdr) })
	}
	if lim.name == "prod" {
		for n := 10; n <= 21; n++ {
			for d := -1; d <= 1; d++ {
				t := 1<<uint(n) + d
				addN(fmt.Sprintf("record-2^%d%+d", n, d), t, func() string { return rep("m", t-hdr-8) + ` \n\t€ e` })
			}
		}
	}
	return o
}

func enumLengths(h *harness) {
	ctx := h.ctx
	type combo struct {
		lim   limits
		st    *sentinels
		shape int
	}
	for _, cb := range []combo{{scaled, stdSentinels, 0}, {prod, stdSentinels, 0}, {prod, richL, 1}} {
		ms := menus(cb.lim, cb.st)
		opts := lengthOpts(cb.lim, cb.st)
		ctx.Group(fmt.Sprintf("D/lengths/%s/%s/shape%d", cb.lim.name, cb.st.name, cb.shape))
		for _, lo := range opts {
			if ctx.Stop() {
				return
			}
			// the other token: none, or any single non-normal option of another token
			for tok := -1; tok < len(ms); tok++ {
				if tok == lo.token {
					continue
				}
				nopt := 2
				if tok >= 0 {
					nopt = len(ms[tok].opts)
				}
				for oi := 1; oi < nopt; oi++ {
					if tok >= 0 && !ctx.Thorough() && (cb.st == richL || lo.big || ms[tok].tags[oi] == "long") {
						// quick: the pooled neighbours see every length on its own only; lengths of 256 KiB and more go with
						// normal tokens only, and no length is paired with the 2 x limit token of another field (that token
						// x every single other option is in A/.../at-most-two-deviations)
						continue
					}
					if !ctx.Mine() {
						ctx.Skip()
						continue
					}
					lo, tok, oi := lo, tok, oi
					other := "none"
					if tok >= 0 {
						other = ms[tok].name + "=" + ms[tok].tags[oi]
					}
					h.runShape(fmt.Sprintf("D/%s/%s/s%d/%s/%s", cb.lim.name, cb.st.name, cb.shape, lo.tag, other), cb.lim, cb.st, cb.shape, true, func() string {
						parts := make([]string, len(ms))
						for i, m := range ms {
							parts[i] = m.opts[0]
						}
						if tok >= 0 {
							parts[tok] = ms[tok].opts[oi]
						}
						parts[lo.token] = lo.build()
						return strings.Join(parts, " ")
					})
				}
			}
		}
	}
}

// ------------------------------------------------------------------------------------------------------------------
// (E) the units the framer hands over ("The resulting messages don't contain newlines at the end, but can have newlines in
// the middle for multi-line messages"; "may be oversized"): a first line - nothing, a well-formed record, a head that stops
// short, garbage - followed by zero, one or two attached lines, and lumps of the size of the line buffer

func enumUnits(h *harness) {
	ctx := h.ctx
	for _, lim := range []limits{scaled, prod} {
		buf := 4 * (lim.maxMessage + 256) // ListenerLineBufferSize
		for _, st := range []*sentinels{stdSentinels, richA, richB} {
			hdr := strings.Join(st.tok[:1], "") + " 2020-01-01T00:00:02Z " + strings.Join(st.tok[2:], " ") + " "
			heads := []struct{ tag, s string }{{"nothing", ""}, {"record", hdr + "unit message"}, {"short-head", "<13>1 short"}, {"garbage", "garbage line"},
				{"record-with-escapes", hdr + `[Unit] - unit \n\t message`}}
			lines := []struct{ tag, s string }{{"empty", ""}, {"garbage", "a garbage line"}, {"short-head", "<13>1 short"}, {"over-limit", rep("L", lim.maxMessage+300)}, {"binary", "\xff\xfe\x00"}}
			type unit struct {
				tag   string
				build func() string
			}
			var units []unit
			for _, hd := range heads {
				hd := hd
				units = append(units, unit{hd.tag, func() string { return hd.s }})
				for _, a := range lines {
					a := a
					units = append(units, unit{hd.tag + "+" + a.tag, func() string { return hd.s + "\n" + a.s }})
					for _, b := range lines {
						b := b
						units = append(units, unit{hd.tag + "+" + a.tag + "+" + b.tag, func() string { return hd.s + "\n" + a.s + "\n" + b.s }})
					}
				}
			}
			for _, n := range []int{buf - 1, buf} {
				n := n
				units = append(units,
					unit{fmt.Sprintf("lump-record-%d", n), func() string { return hdr + rep("M", n-len(hdr)) }},
					unit{fmt.Sprintf("lump-record-lines-%d", n), func() string { return hdr + "first\n" + rep("continuation line\n", (n-len(hdr)-6)/18) }},
					unit{fmt.Sprintf("lump-garbage-%d", n), func() string { return rep("G", n) }},
					unit{fmt.Sprintf("lump-newlines-%d", n), func() string { return rep("\n", n) }})
			}
			for shape := 0; shape <= 1; shape++ {
				ctx.Group(fmt.Sprintf("E/framer-units/%s/%s/shape%d", lim.name, st.name, shape))
				for _, u := range units {
					if ctx.Stop() {
						return
					}
					h.runShape(fmt.Sprintf("E/%s/%s/s%d/%s", lim.name, st.name, shape, u.tag), lim, st, shape, true, u.build)
				}
			}
		}
	}
}

// ------------------------------------------------------------------------------------------------------------------
// (C2) all strings over {<,1,9,>,space,-,a} up to length 6 (thorough 7) as they are - no tail: what is left of a record
// cut at a disconnect, or any short line; (C3) all such strings up to length 4 continued by the tail and cut to a total of
// 30..33 bytes: both sides of the minimal record length of the parser and of the record-start test

const shortAlphabet2 = "<19> -a"

func enumShortLines(h *harness) {
	ctx := h.ctx
	maxLen := 6
	if ctx.Thorough() {
		maxLen = 7
	}
	each := func(l int, f func(s string)) bool {
		idx := make([]int, l)
		b := make([]byte, l)
		for {
			if ctx.Stop() {
				return false
			}
			for i, x := range idx {
				b[i] = shortAlphabet2[x]
			}
			f(string(b))
			i := l - 1
			for i >= 0 {
				idx[i]++
				if idx[i] < len(shortAlphabet2) {
					break
				}
				idx[i] = 0
				i--
			}
			if i < 0 {
				return true
			}
		}
	}
	for l := 0; l <= maxLen; l++ {
		ctx.Group(fmt.Sprintf("C2/short-line/scaled/len%d", l))
		if !each(l, func(s string) {
			h.run("C2/scaled/"+s, scaled, stdSentinels, l > 0 && s[0] == '<', func() string { return s })
		}) {
			return
		}
	}
	for l := 0; l <= 4; l++ {
		ctx.Group(fmt.Sprintf("C3/line-cut-at-minimal-length/scaled/len%d", l))
		if !each(l, func(s string) {
			for total := 30; total <= 33; total++ {
				total := total
				h.run(fmt.Sprintf("C3/scaled/%d/%s", total, s), scaled, stdSentinels, l > 0 && s[0] == '<', func() string { return (s + " " + shortTail)[:total] })
			}
		}) {
			return
		}
	}
}
