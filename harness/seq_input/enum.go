package main

import (
	"fmt"
	"os"
	"runtime"
	"runtime/pprof"
	"strings"
	"time"
)

// ------------------------------------------------------------------------------------------------------------------
// (A) product of per-token boundary menus (DESIGN C07)

type menu struct {
	name string
	opts []string // opts[0] is the normal value
	tags []string // short names for case ids
}

// menus returns the per-token menus; the normal value of PRI, host, app and msgid is the one of the sentinels, so that a
// record of normal tokens shares their pipeline.
func menus(lim limits, st *sentinels) []menu {
	long := strings.Repeat("L", 2*(lim.maxMessage+256)+1) // longer than the serializer's fixed buffer (2*InputLogMaxRecordBytes)
	L := lim.maxMessage
	return []menu{
		{"pri", []string{st.tok[0], "<", "<>1", "<1", "<191>1", "<192>1", "<-1>1", "<99999999999>1", "<13>2"},
			[]string{"ok", "lt", "empty", "nogt", "191", "192", "neg", "huge", "v2"}},
		{"ts", []string{"2020-01-01T00:00:02Z", "2019-08-15T15:50:46.866915+03:00", "2020-09-17T16:51:47.867-0800", "-", "", "2020-01-01",
			"2020-01-01T00:00:00", "2020/01/01T00.00.00Z", "2020-01-01T00:00:00.1234567890123456789Z"},
			[]string{"z", "frac", "compact", "nil", "empty", "date", "nozone", "badsep", "40"}},
		{"host", []string{st.tok[2], "", "-", long, "ho\xffst", "ho/st"}, []string{"ok", "empty", "nil", "long", "ff", "slash"}},
		{"app", []string{st.tok[3], "", "-", long, "ap\xffp", "sentApp/vhost.example.com"}, []string{"ok", "empty", "nil", "long", "ff", "slash"}},
		{"pid", []string{"1"}, []string{"1"}},
		{"msgid", []string{st.tok[5], "", "-", long, "ms\xffg", "dir/file.log", "job.log:0123abcd-ef"}, []string{"ok", "empty", "nil", "long", "ff", "slash", "task"}},
		{"sd", []string{"-", "[x]"}, []string{"nil", "x"}},
		{"msg", []string{
			"plain message",
			"",
			"   ",
			"[ ] - x",
			"[a] - x",
			"[",
			"[ ] - ",
			`tab\tnl\nquote\"bs\\trailing\`,
			"line one\nline two\n",
			"\xff\xfe abc \xc3",
			strings.Repeat("€", L/3+1), // 3-byte runes, the limit falls inside a rune
			strings.Repeat("m", L-1),
			strings.Repeat("m", L),
			strings.Repeat("m", L+1),
			"mail to bob@example",
			"user=bar.foo@nowhere.com",
			"x a@b.c",
		}, []string{"plain", "empty", "spaces", "class-blank", "class-a", "bracket", "class-blank-only", "escapes", "multiline", "badutf8", "runes-at-limit",
			"limit-1", "limit", "limit+1", "mail-cut", "mail", "mail-short"}},
	}
}

func buildRecord(ms []menu, idx []int) string {
	parts := make([]string, len(ms))
	for i, m := range ms {
		parts[i] = m.opts[idx[i]]
	}
	return strings.Join(parts, " ")
}

func menuID(ms []menu, idx []int) string {
	parts := make([]string, len(ms))
	for i, m := range ms {
		parts[i] = m.tags[idx[i]]
	}
	return strings.Join(parts, ".") // pri.ts.host.app.pid.msgid.sd.msg
}

var stdSentinels = newSentinels("std", "<13>1 2020-01-01T00:00:01Z sentHost sentApp 1 sent.log - ")

func enumMenus(h *harness) {
	ctx := h.ctx
	for _, lim := range []limits{scaled, prod} {
		ms := menus(lim, stdSentinels)
		full := lim.name == "scaled" || ctx.Thorough()
		if full {
			ctx.Group("A/menus/" + lim.name + "/full-product")
		} else {
			ctx.Group("A/menus/" + lim.name + "/at-most-two-deviations")
		}
		idx := make([]int, len(ms))
		for {
			if ctx.Stop() {
				return
			}
			dev := 0
			for _, x := range idx {
				if x != 0 {
					dev++
				}
			}
			if full || dev <= 2 {
				if ctx.Mine() {
					at := append([]int(nil), idx...)
					n := len(ms) - 1
					for i, m := range ms {
						n += len(m.opts[idx[i]])
					}
					h.run("A/"+lim.name+"/"+menuID(ms, idx), lim, stdSentinels, n >= 32, func() string { return buildRecord(ms, at) })
				} else {
					ctx.Skip()
				}
			}
			i := len(idx) - 1
			for i >= 0 {
				idx[i]++
				if idx[i] < len(ms[i].opts) {
					break
				}
				idx[i] = 0
				i--
			}
			if i < 0 {
				break
			}
		}
	}
}

// ------------------------------------------------------------------------------------------------------------------
// (B) all one-edit neighbours of five valid seed records taken from /repo/testdata/development/*-input.log

type seed struct {
	file string
	line int // 1-based
	text string
	st   *sentinels
}

func loadSeeds() []*seed {
	seeds := []*seed{
		{file: "basic-1-input.log", line: 1},  // class + task (cron.log:uuid), vhost
		{file: "basic-2-input.log", line: 1},  // structured data [@1], JSON-ish message
		{file: "basic-2-input.log", line: 12}, // auth.log: dropped by the pipeline transforms, e-mail address
		{file: "basic-2-input.log", line: 19}, // error level, class, path with slashes
		{file: "basic-2-input.log", line: 25}, // short task id, class, head of a multi-line record
	}
	for _, s := range seeds {
		data, err := os.ReadFile("/repo/testdata/development/" + s.file)
		if err != nil {
			panic(err)
		}
		lines := strings.Split(string(data), "\n")
		s.text = lines[s.line-1]
		if v, _ := classify(s.text, 256); v != mustAccept {
			panic(fmt.Sprintf("seed %s:%d is not a well-formed record: %q", s.file, s.line, s.text))
		}
		// sentinels share PRI, host and app with the seed (same key set unless the seed carries a task id)
		f := strings.SplitN(s.text, " ", 5)
		s.st = newSentinels(fmt.Sprintf("%s:%d", s.file, s.line), fmt.Sprintf("%s 2020-01-01T00:00:01Z %s %s 1 sent.log - ", f[0], f[2], f[3]))
	}
	return seeds
}

func enumEdits(h *harness, seeds []*seed) {
	ctx := h.ctx
	for _, lim := range []limits{scaled, prod} {
		for si, s := range seeds {
			if lim.name == "prod" && !ctx.Thorough() && si >= 2 {
				continue
			}
			ctx.Group(fmt.Sprintf("B/edits/%s/seed%d", lim.name, si))
			t := s.text
			pre := fmt.Sprintf("B/%s/seed%d/", lim.name, si)
			h.run(pre+"unchanged", lim, s.st, true, func() string { return t })
			for pos := 0; pos <= len(t); pos++ {
				if ctx.Stop() {
					return
				}
				for c := 0; c < 256; c++ {
					if pos < len(t) && byte(c) != t[pos] {
						if ctx.Mine() {
							pos, c := pos, c
							h.run(fmt.Sprintf("%ssub/%d/%02x", pre, pos, c), lim, s.st, true, func() string { return t[:pos] + string([]byte{byte(c)}) + t[pos+1:] })
						} else {
							ctx.Skip()
						}
					}
					if ctx.Mine() {
						pos, c := pos, c
						h.run(fmt.Sprintf("%sins/%d/%02x", pre, pos, c), lim, s.st, true, func() string { return t[:pos] + string([]byte{byte(c)}) + t[pos:] })
					} else {
						ctx.Skip()
					}
				}
				if pos < len(t) {
					pos := pos
					h.run(fmt.Sprintf("%sdel/%d", pre, pos), lim, s.st, true, func() string { return t[:pos] + t[pos+1:] })
				}
			}
		}
	}
}

// ------------------------------------------------------------------------------------------------------------------
// (C) all strings over {<,1,>,space,-,a} up to length 7 (quick) / 8 (thorough) in front of a fixed valid-looking tail

const shortAlphabet = "<1> -a"
const shortTail = "2020-01-01T00:00:03Z sentHost sentApp 1 sent.log - tail message"

func enumShort(h *harness) {
	ctx := h.ctx
	maxLen := 7
	if ctx.Thorough() {
		maxLen = 8
	}
	for l := 0; l <= maxLen; l++ {
		ctx.Group(fmt.Sprintf("C/short-prefix/scaled/len%d", l))
		idx := make([]int, l)
		b := make([]byte, l)
		for {
			if ctx.Stop() {
				return
			}
			if ctx.Mine() {
				for i, x := range idx {
					b[i] = shortAlphabet[x]
				}
				s := string(b)
				h.run("C/scaled/"+s, scaled, stdSentinels, l > 0 && s[0] == '<', func() string { return s + shortTail })
			} else {
				ctx.Skip()
			}
			i := l - 1
			for i >= 0 {
				idx[i]++
				if idx[i] < len(shortAlphabet) {
					break
				}
				idx[i] = 0
				i--
			}
			if i < 0 {
				break
			}
		}
	}
}

// ------------------------------------------------------------------------------------------------------------------

// diag measures the cost of one case and prints the outcome of a few records (SEQ_INPUT_DIAG=1; not part of the check).
func diag() {
	h := &harness{w: loadWorld(configPath), seen: map[string]bool{}, confirmed: map[string]int{}}
	if os.Getenv("SEQ_INPUT_DIAG") == "crosscheck" {
		// verdicts of single() over the sub-domain of (A) with a long msgid, for comparison with the batched run
		tally := map[string]int{}
		for _, lim := range []limits{scaled, prod} {
			ms := menus(lim, stdSentinels)
			idx := make([]int, len(ms))
			for {
				dev := 0
				for _, x := range idx {
					if x != 0 {
						dev++
					}
				}
				if idx[5] == 3 && (lim.name == "scaled" || dev <= 2) {
					k, _ := h.single(lim, stdSentinels, buildRecord(ms, idx), 0)
					tally[k]++
				}
				i := len(idx) - 1
				for i >= 0 {
					idx[i]++
					if idx[i] < len(ms[i].opts) {
						break
					}
					idx[i] = 0
					i--
				}
				if i < 0 {
					break
				}
			}
		}
		fmt.Println(tally)
		return
	}
	if os.Getenv("SEQ_INPUT_DIAG") == "soakprof" {
		// heap profiles around the second half of one soak class (SEQ_INPUT_SOAK=<class>), for go tool pprof -base
		for _, c := range soakClasses() {
			if c.name == os.Getenv("SEQ_INPUT_SOAK") {
				soakProfile = "/tmp/seq_input_soak"
				runtime.MemProfileRate = 1
				k, m := h.soak(c, 2000, 10000)
				fmt.Println(k, m)
			}
		}
		return
	}
	if f := os.Getenv("SEQ_INPUT_PROF"); f != "" {
		fh, _ := os.Create(f)
		pprof.StartCPUProfile(fh)
		defer pprof.StopCPUProfile()
	}
	for _, lim := range []limits{scaled} {
		h.baseline(lim, stdSentinels)
		t0 := time.Now()
		n := 2000
		for i := 0; i < n; i++ {
			h.single(lim, stdSentinels, "<13>1 2020-01-01T00:00:02Z sentHost otherApp 1 sent.log - plain message", 0)
		}
		fmt.Printf("%s: %.1f us per case\n", lim.name, float64(time.Since(t0).Microseconds())/float64(n))
	}
	for _, rec := range []string{
		"<13>1 2020-01-01T00:00:02Z sentHost sentApp 1 sent.log - plain message",
		"< 2020-01-01T00:00:02Z sentHost sentApp 1 sent.log - plain message",
		"<13>1 2020-01-01T00:00:02Z sentHost sentApp 1 sent.log - [ ] - x",
		"<13>1 2020-01-01T00:00:02Z ho\xffst sentApp 1 sent.log - plain message",
		"<13>1 2020-01-01T00:00:02Z sentHost ap\xffp 1 sent.log - plain message",
		"<13>1 2020-01-01T00:00:02Z " + strings.Repeat("L", 641) + " sentApp 1 sent.log - plain message",
		"<13>1 - sentHost sentApp 1 sent.log - plain message",
	} {
		k, m := h.single(scaled, stdSentinels, rec, 0)
		if len(m) > 700 {
			m = m[:700]
		}
		if len(rec) > 100 {
			rec = rec[:100] + "..."
		}
		fmt.Printf("%q\n   -> key=%q %s\n", rec, k, m)
	}
}
