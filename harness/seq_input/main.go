// Command seq_input decides C07 at record level: no input can crash or wedge the agent.
//
// Every case builds a fresh agent core from /repo/testdata/config_sample.yml (parsing receiver with the extraction
// transforms -> real byKeySet orchestrator -> real LogProcessingWorker per key set with the configured transforms,
// serializers and chunk makers -> capture), sends  sentinel-1, BAD RECORD, sentinel-2  on one connection and
// sentinel-3 on a second connection, and checks: no panic, all sentinels delivered unchanged and in order on both
// outputs, every line counted exactly once, a rejected record not delivered, a delivered record counted as passed.
package main

import (
	"fmt"
	"os"
	"runtime/debug"
	"strings"
	"time"
	"unicode/utf8"

	"github.com/relex/gotils/logger"
	"github.com/relex/slog-agent/input/syslogprotocol"

	"slogverif/hutil"
	"slogverif/seq"
)

const configPath = "/repo/testdata/config_sample.yml"

var (
	scaled = limits{"scaled", 64}            // message 64, record 320, as in DESIGN C07
	prod   = limits{"prod", 1 * 1024 * 1024} // defs/params.go as shipped
)

// ------------------------------------------------------------------------------------------------------------------
// reference classification of a record (DESIGN A.2), written from the documented line grammar:
//   "<" PRI ">1" SP ts SP host SP app SP pid SP msgid SP sd SP msg

type verdict int

const (
	either verdict = iota
	mustAccept
	mustReject
)

func classify(line string, headerBudget int) (verdict, string) {
	if len(line) == 0 || line[0] != '<' {
		return mustReject, "does-not-start-with-pri"
	}
	sp := strings.IndexByte(line, ' ')
	if sp < 0 {
		return mustReject, "no-header-fields"
	}
	t0 := line[:sp]
	if len(t0) < 3 || t0[len(t0)-2:] != ">1" {
		return mustReject, "pri-or-version-malformed"
	}
	pri := t0[1 : len(t0)-2]
	priOK := len(pri) >= 1 && len(pri) <= 3
	val := 0
	for i := 0; i < len(pri); i++ {
		if pri[i] < '0' || pri[i] > '9' {
			priOK = false
			break
		}
		val = val*10 + int(pri[i]-'0')
	}
	if val > 191 {
		priOK = false
	}
	// the six header tokens after the PRI
	rest := line[sp+1:]
	tokensOK := true
	for i := 0; i < 6; i++ {
		j := strings.IndexByte(rest, ' ')
		if j < 0 {
			if i < 5 {
				return mustReject, "missing-header-fields"
			}
			return either, "" // structured data present but no message part: RFC 5424 allows it, the documented grammar does not
		}
		tok := rest[:j]
		if len(tok) == 0 {
			tokensOK = false
		}
		for k := 0; k < len(tok); k++ {
			if tok[k] < 33 || tok[k] > 126 {
				tokensOK = false
			}
		}
		rest = rest[j+1:]
	}
	headerLen := len(line) - len(rest)
	if len(line) < 32 {
		return either, "" // shorter than the minimal supported length: outside the claim
	}
	if priOK && tokensOK && headerLen <= headerBudget {
		return mustAccept, ""
	}
	return either, ""
}

// ------------------------------------------------------------------------------------------------------------------

// sentinels are three well-formed records sharing one key set; base[o][i] is the canonical text of sentinel i as
// delivered to output o when nothing else is sent (computed once per limits variant with the same machinery).
type sentinels struct {
	name string
	s    [3]string
	tok  []string               // the header tokens shared by the three: PRI+version, timestamp, host, app, pid, msgid, SD
	base map[string][][3]string // limits name -> per output
}

var plainMessages = [3]string{"sentinel one: the quick brown fox", "sentinel two: jumps over the lazy dog", "sentinel three: after the connection closed"}

// richMessages carry what the pipeline works on: a class head (extracted at the input, put back by the Fluentd
// serializer), escape sequences (\n \t \\ are unescaped while serializing), a 3-byte rune, an e-mail address
// (redacted in place for app=appServ); at most 64 bytes each, so that they are whole under the scaled limits too.
var richMessages = [3]string{
	`[ClsOne] - sentinel one \t tab \n nl \\ bs € x.y@ex.com`,
	`[ClsTwo] - sentinel two \n\tat x.Y(z.go:1) \\ € bob@ex.com`,
	`sentinel three \t€\n after close, mail joe@example.org`,
}

// longMessages are richMessages with a stack trace of escape sequences behind them: records beyond
// InputLogMinRecordBytesToPool (1024), which live in recycled pooled buffers; shipped limits only.
var longMessages = func() (m [3]string) {
	for i, r := range richMessages {
		m[i] = r + strings.Repeat(`\n\tat com.example.Cls.method(File.java:123)`, 24+i) + ` \n end € al.ice@example.com`
	}
	return m
}()

func newSentinels(name, header string) *sentinels {
	return newSentinelsWith(name, header, plainMessages)
}

func newSentinelsWith(name, header string, msgs [3]string) *sentinels {
	st := &sentinels{name: name, base: map[string][][3]string{}, tok: strings.Fields(header)}
	if len(st.tok) != 7 {
		panic("sentinel header must have seven tokens: " + header)
	}
	for i, m := range msgs {
		st.s[i] = header + m
		if v, _ := classify(st.s[i], 256); v != mustAccept || !strings.Contains(m, markers[i]) {
			panic("sentinel is not a well-formed record carrying its marker: " + st.s[i])
		}
	}
	return st
}

// bugLog receives the agent's log output; the agent marks "cannot happen" situations (e.g. a 60 s channel timeout) with BUG.
var bugLog = &hutil.LogCapture{}

type pending struct {
	id, bad, shown string
	shape          int
	c              counts
}

type harness struct {
	w         *world
	ctx       *seq.Ctx
	seen      map[string]bool
	confirmed map[string]int
	// the running agent core and the cases whose output has not been looked at yet (all with the same limits and sentinels)
	sess  *session
	blim  limits
	bst   *sentinels
	batch []pending
	// vacuity counters (per worker process)
	nRejected, nDelivered, nProcDropped, nPanic, nOwnPipe, nGatherErr, nSessions, nBatches, nFallback, nRequeued int64
}

// Reuse of one agent core (session): it serves at most maxCasesPerSession cases, its pipelines' flush tick fires every
// batchSize cases (the output of those cases is checked then), and it is replaced when it holds more than maxPipes
// pipelines, after any violation, and whenever limits or sentinels change.
const (
	maxCasesPerSession = 128
	batchSize          = 32
	maxPipes           = 8
)

var markers = []string{"sentinel one", "sentinel two", "sentinel three"}

func (h *harness) baseline(lim limits, st *sentinels) [][3]string {
	if b, ok := st.base[lim.name]; ok {
		return b
	}
	s := h.w.newSession(lim)
	c := s.exchange([]string{st.s[0], st.s[1]}, st.s[2], 0)
	s.tick(&c)
	b := make([][3]string, len(h.w.outputNames))
	for o := range h.w.outputNames {
		es, err := s.in.decode(o)
		if err != nil || len(es) != 3 {
			panic(fmt.Sprintf("baseline of sentinels %s on output %s: %d entries, err=%v", st.name, h.w.outputNames[o], len(es), err))
		}
		for i := 0; i < 3; i++ {
			b[o][i] = es[i].text
			if !strings.Contains(es[i].text, markers[i]) {
				panic(fmt.Sprintf("baseline of sentinels %s on output %s: entry %d does not carry its message: %s", st.name, h.w.outputNames[o], i, es[i].text))
			}
		}
	}
	if c.inPassed != 3 || c.inDropped != 0 || c.procPassed != 3 || c.procDropped != 0 {
		panic(fmt.Sprintf("baseline of sentinels %s: counters %+v", st.name, c))
	}
	st.base[lim.name] = b
	return b
}

// recordStart applies the real record-start test of the framer (syslogprotocol.TestRecordStart, "checks whether given
// []byte is possibly a valid syslog record") to the record - every record reaches the parser only behind this test, as a
// line of its own or as the whole unit at a flush. It must not panic; a record of the documented grammar must be
// recognised (else the framer glues it to the record in front of it and it is lost); something that does not begin with
// '<' must not be.
func recordStart(bad string) (string, string) {
	var is bool
	if site, detail := catch(func() { is = syslogprotocol.TestRecordStart([]byte(bad)) }); site != "" {
		return "panic:" + site, detail
	}
	v, _ := classify(bad, 256)
	if v == mustAccept && !is {
		return "recordstart:wellformed-record-not-recognised", "the record matches the documented grammar but TestRecordStart says it is not the start of a record (the framer would attach it to the record in front of it)"
	}
	if (len(bad) == 0 || bad[0] != '<') && is {
		return "recordstart:garbage-recognised", "the line does not begin with '<' but TestRecordStart says it is the start of a record"
	}
	return "", ""
}

// immediate applies the part of the oracle that is known as soon as the input side has handled the lines.
func immediate(c counts, bad string) (string, string) {
	if c.inPassed+c.inDropped != 4 {
		return "accounting:input-lines-not-counted-once", fmt.Sprintf("4 lines sent, input passed=%d dropped=%d", c.inPassed, c.inDropped)
	}
	if c.inDropped > 1 {
		return "sentinel:rejected", fmt.Sprintf("only one record is bad but %d records were rejected", c.inDropped)
	}
	v, why := classify(bad, 256)
	if v == mustReject && c.inDropped != 1 {
		return "malformed-accepted:" + why, fmt.Sprintf("the record is malformed (%s) but was not rejected: input passed=%d dropped=%d", why, c.inPassed, c.inDropped)
	}
	if v == mustAccept && c.inDropped != 0 {
		return "wellformed-rejected", "the record matches the documented grammar (PRI 0-191, version 1, six non-empty printable header tokens within 256 bytes) but was rejected"
	}
	return "", ""
}

// delivered applies the output part of the oracle to everything delivered since the last tick: n cases were played, whose
// counter increments add up to c.
func (h *harness) delivered(s *session, base [][3]string, n int, c counts, count bool) (string, string) {
	// A key value that is not valid UTF-8 becomes a label of its pipeline's metrics and makes exactly those series
	// unreadable (Gather reports an error and leaves them out; no panic). For such pipelines the number of records handed
	// to the worker stands in for passed+dropped, and their events are not compared with the passed counter.
	hidden := 0
	for _, p := range s.in.pipes {
		if !utf8.ValidString(p.id) {
			hidden += p.entered
		}
	}
	if s.gatherE && count {
		h.nGatherErr++
	}
	if c.procPassed+c.procDropped+hidden != c.inPassed {
		return "accounting:pipeline-records-not-counted-once", fmt.Sprintf("input passed=%d but pipelines passed=%d dropped=%d (and %d records went to pipelines whose counters are unreadable)", c.inPassed, c.procPassed, c.procDropped, hidden)
	}
	for o, oname := range h.w.outputNames {
		es, err := s.in.decode(o)
		if err != nil {
			return "chunk-undecodable:" + oname, err.Error()
		}
		visible, fromHidden := 0, 0
		for _, e := range es {
			if utf8.ValidString(s.in.pipes[e.pipe].id) {
				visible++
			} else {
				fromHidden++
			}
		}
		if visible != c.procPassed {
			return "accounting:delivered-differs-from-passed:" + oname, fmt.Sprintf("pipelines counted %d passed records but output %s received %d events from them", c.procPassed, oname, visible)
		}
		if fromHidden > hidden {
			return "accounting:delivered-more-than-accepted:" + oname, fmt.Sprintf("%d records went to pipelines with unreadable counters but output %s received %d events from them", hidden, oname, fromHidden)
		}
		// sentinels: the sentinel texts must appear as (1,2,3) x n, unchanged, in that order, all in one pipeline
		next, pipe, own := 0, -1, 0
		for _, e := range es {
			which := -1
			for i := 0; i < 3; i++ {
				if e.text == base[o][i] {
					which = i
				}
			}
			if which < 0 {
				for i := 0; i < 3; i++ {
					if strings.Contains(e.text, markers[i]) {
						return "sentinel:altered:" + oname, fmt.Sprintf("sentinel %d reached %s changed:\n   expected %s\n   got      %s", i+1, oname, base[o][i], e.text)
					}
				}
				if pipe >= 0 && e.pipe != pipe {
					own++
				}
				continue
			}
			if pipe < 0 {
				pipe = e.pipe
			}
			if e.pipe != pipe || which != next%3 || next >= 3*n {
				return "sentinel:reordered-or-duplicated:" + oname, fmt.Sprintf("event #%d of the sentinel sequence on %s is sentinel %d in pipeline %d; expected sentinel %d in pipeline %d (sequence 1,2,3 x %d)",
					next, oname, which+1, e.pipe, next%3+1, pipe, n)
			}
			next++
		}
		if next != 3*n {
			return "sentinel:lost:" + oname, fmt.Sprintf("%d of the %d sentinel events reached %s", next, 3*n, oname)
		}
		if o == 0 && count {
			h.nDelivered += int64(len(es) - 3*n)
			h.nProcDropped += int64(c.inPassed - len(es))
			h.nOwnPipe += int64(own)
		}
	}
	return "", ""
}

// single runs one case on its own on a fresh agent core, with the flush tick right after it: the reference verdict for a
// case (this is also what a replay does).
func (h *harness) single(lim limits, st *sentinels, bad string, shape int) (string, string) {
	base := h.baseline(lim, st)
	if k, m := recordStart(bad); k != "" {
		return k, m
	}
	s := h.w.newSession(lim)
	var c counts
	site, detail := catch(func() {
		c = s.exchange([]string{st.s[0], bad, st.s[1]}, st.s[2], shape)
		s.tick(&c)
	})
	line := bugLog.FirstBugLine()
	bugLog.Reset()
	if site != "" {
		return "panic:" + site, detail
	}
	if k, m := immediate(c, bad); k != "" {
		return k, m
	}
	if line != "" {
		return "logged-bug", "the agent logged: " + line
	}
	return h.delivered(s, base, 1, c, false)
}

// step plays one case on the running agent core. What can be judged at once is judged (panic, input accounting, accept /
// reject); the delivered output is judged at the next flush tick (flushBatch). Anything found on a reused core is re-run
// with single(), whose verdict is the one reported; if it does not reproduce alone it is reported under "after-earlier-input:".
func (h *harness) step(id string, lim limits, st *sentinels, bad, shown string, shape int) (string, string) {
	h.baseline(lim, st)
	if k, m := recordStart(bad); k != "" {
		return k, m // a pure function of the record: nothing was played, the running core stays as it is
	}
	if h.sess == nil {
		h.sess = h.w.newSession(lim)
		h.blim, h.bst = lim, st
		h.nSessions++
	}
	s := h.sess
	var c counts
	site, detail := catch(func() { c = s.exchange([]string{st.s[0], bad, st.s[1]}, st.s[2], shape) })
	key, msg := "", ""
	if site != "" {
		h.nPanic++
		key, msg = "panic:"+site, detail
	} else {
		key, msg = immediate(c, bad)
	}
	if line := bugLog.FirstBugLine(); line != "" {
		if key == "" {
			key, msg = "logged-bug", "the agent logged: "+line
		}
	}
	bugLog.Reset()
	if key == "" {
		if c.inDropped == 1 {
			h.nRejected++
		}
		h.batch = append(h.batch, pending{id, bad, shown, shape, c})
		return "", ""
	}
	// this core is done: it is dead (panic) or holds output of a case that is not in the batch. The earlier cases of the
	// batch, whose output has not been judged yet, are played again on a new core (requeue).
	pend := h.batch
	h.batch = nil
	h.sess = nil
	// confirm on a fresh core (a panic class that was confirmed three times already in this process is taken as it is)
	if s.cases > 1 && !(site != "" && h.confirmed[key] >= 3) {
		if k2, m2 := h.single(lim, st, bad, shape); k2 != "" {
			if k2 == key {
				h.confirmed[key]++
			}
			key, msg = k2, m2
		} else {
			key, msg = "after-earlier-input:"+key, "only after the earlier cases served by the same agent core (not reproducible on its own): "+msg
		}
	}
	h.requeue(lim, st, pend)
	return key, msg
}

// requeue plays cases, which went through without complaint once, again on a new agent core and fires its flush tick. If
// one of them now misbehaves, all of them are judged alone.
func (h *harness) requeue(lim limits, st *sentinels, pend []pending) {
	if len(pend) == 0 {
		return
	}
	h.nRequeued += int64(len(pend))
	s := h.w.newSession(lim)
	h.nSessions++
	again := make([]pending, 0, batchSize)
	for _, p := range pend {
		var c counts
		site, _ := catch(func() { c = s.exchange([]string{st.s[0], p.bad, st.s[1]}, st.s[2], p.shape) })
		k := site
		if k == "" {
			k, _ = immediate(c, p.bad)
		}
		if k != "" {
			for _, q := range pend {
				if k, m := h.single(lim, st, q.bad, q.shape); k != "" {
					h.report(k, q.id, lim, q.shown, m)
				}
			}
			return
		}
		again = append(again, pending{p.id, p.bad, p.shown, p.shape, c})
	}
	h.sess, h.blim, h.bst, h.batch = s, lim, st, again
	h.flushBatch() // judged at once, so that no case is played more than twice
}

// flushBatch fires the pipelines' flush tick and judges the output of the pending cases.
func (h *harness) flushBatch() {
	if len(h.batch) == 0 || h.sess == nil {
		h.batch = h.batch[:0]
		return
	}
	s, lim, st := h.sess, h.blim, h.bst
	batch := h.batch
	h.batch = nil
	h.nBatches++
	var total counts
	for _, p := range batch {
		total.inPassed += p.c.inPassed
		total.inDropped += p.c.inDropped
	}
	key, msg := "", ""
	site, detail := catch(func() { s.tick(&total) })
	if site != "" {
		key, msg = "panic:"+site, detail
	} else {
		key, msg = h.delivered(s, h.baseline(lim, st), len(batch), total, true)
		s.judged()
	}
	if line := bugLog.FirstBugLine(); line != "" && key == "" {
		key, msg = "logged-bug", "the agent logged: "+line
	}
	bugLog.Reset()
	if key == "" {
		if s.cases >= maxCasesPerSession || len(s.in.pipes) > maxPipes || s.gatherE {
			h.sess = nil
		}
		return
	}
	// something is wrong with the output of this batch: find the case(s) by running each one alone
	h.sess = nil
	h.nFallback++
	found := false
	for _, p := range batch {
		if k, m := h.single(lim, st, p.bad, p.shape); k != "" {
			found = true
			h.report(k, p.id, lim, p.shown, m)
		}
	}
	if !found {
		h.report("after-earlier-input:"+key, batch[0].id, lim, batch[0].shown,
			fmt.Sprintf("the output of a batch of %d consecutive cases (first id given) is wrong but each case alone is fine: %s", len(batch), msg))
	}
}

func (h *harness) report(key, id string, lim limits, shown, msg string) {
	if h.seen[key] {
		h.ctx.Report(key, id, "", "")
		return
	}
	h.seen[key] = true
	h.ctx.Report(key, id, fmt.Sprintf("limits=%s record=%s\n%s", lim.name, shown, msg), shown)
}

// run registers one case. The record is built inside the case (build), so that a replay - which walks the whole
// enumeration to find one id - does not construct millions of records.
func (h *harness) run(id string, lim limits, st *sentinels, nontrivial bool, build func() string) {
	h.runShape(id, lim, st, 0, nontrivial, build)
}

// runShape is run with the shape of the exchange (see session.exchange) given.
func (h *harness) runShape(id string, lim limits, st *sentinels, shape int, nontrivial bool, build func() string) {
	ctx := h.ctx
	if !ctx.Mine() {
		ctx.Skip()
		return
	}
	ctx.Case(id, nontrivial, id, func() (string, string) {
		if h.sess != nil && (h.blim.name != lim.name || h.bst != st) {
			h.flushBatch()
			h.sess = nil
		}
		bad := build()
		shown := fmt.Sprintf("%q", bad)
		if len(bad) > 600 {
			shown = fmt.Sprintf("%q...(%d bytes)...%q", bad[:300], len(bad), bad[len(bad)-200:])
		}
		key, msg := h.step(id, lim, st, bad, shown, shape)
		if key == "" {
			return "", ""
		}
		if h.seen[key] {
			return key, ""
		}
		h.seen[key] = true
		return key, fmt.Sprintf("limits=%s record=%s\n%s", lim.name, shown, msg)
	})
	if len(h.batch) >= batchSize {
		h.flushBatch()
	}
}

// ------------------------------------------------------------------------------------------------------------------

func enumerate(ctx *seq.Ctx) {
	h := &harness{w: loadWorld(configPath), ctx: ctx, seen: map[string]bool{}, confirmed: map[string]int{}}
	seeds := loadSeeds()
	// the soak group comes first: the live heap of a young worker process is small and steady
	var spent []string
	for _, g := range []struct {
		name string
		f    func()
	}{
		{"G", func() { enumSoak(h) }},
		{"A", func() { enumMenus(h) }},
		{"B", func() { enumEdits(h, seeds) }},
		{"C", func() { enumShort(h) }},
		{"C2+C3", func() { enumShortLines(h) }},
		{"D", func() { enumLengths(h) }},
		{"E", func() { enumUnits(h) }},
		{"F", func() { enumRich(h); h.flushBatch() }},
	} {
		t0 := time.Now()
		g.f()
		spent = append(spent, fmt.Sprintf("%s=%.1fs", g.name, time.Since(t0).Seconds()))
	}
	h.sess = nil
	ctx.Note("wall_time_per_group_in_one_worker_process", strings.Join(spent, " "))
	ctx.Note("outcomes_in_one_worker_process", fmt.Sprintf("bad record rejected at input=%d, delivered=%d (of which through a pipeline other than the sentinels'=%d), dropped by pipeline transforms=%d, panics=%d, "+
		"flush ticks after which the pipeline registry was unreadable (invalid UTF-8 label)=%d, agent cores built=%d, flush ticks judged=%d, batches re-run case by case=%d, cases played again on a new core after a later case broke theirs=%d",
		h.nRejected, h.nDelivered, h.nOwnPipe, h.nProcDropped, h.nPanic, h.nGatherErr, h.nSessions, h.nBatches, h.nFallback, h.nRequeued))
}

func main() {
	logger.SetLogLevel(logger.ErrorLevel)
	logger.SetOutput(bugLog) // keeps only lines containing BUG / level=panic / level=fatal
	debug.SetGCPercent(400)  // every flushed chunk allocates a fresh gzip writer (~600 KB); collect less often
	if os.Getenv("SEQ_INPUT_DIAG") != "" {
		diag()
		return
	}
	seq.Main(&seq.Config{
		Property: "C07",
		Level:    "exploration",
		Rule: "record level, sample configuration /repo/testdata/config_sample.yml: each case sends sentinel-1, RECORD, sentinel-2 on one connection and sentinel-3 on a second one through the real " +
			"LogParsingReceiver (syslog parser + extraction transforms) -> byKeySet orchestrator (pipeline creation per key set) -> LogProcessingWorker (pipeline transforms, both serializers, both chunk makers) -> capture, " +
			"decoded independently (fluentlib msgpack / gzip+JSON); RECORD also goes through the real record-start test of the framer (syslogprotocol.TestRecordStart). Enumerated: (A) the full product of the per-token menus " +
			"PRI(9) x timestamp(9) x host(6) x app(6) x msgid(7) x SD(2) x message(17) = 694008 records under limits " +
			"scaled to message 64 / record 320 (thorough: also under the shipped limits; quick there: all combinations with at most two non-normal tokens); (B) all one-edit neighbours (substitution by each of 255 other bytes, " +
			"insertion of each of 256 bytes at every position, every deletion) of five records of testdata/development (scaled limits: all five; shipped limits: two in quick, five in thorough); (C) all strings over " +
			"{<,1,>,space,-,a} of length 0-7 (thorough 0-8) in front of a fixed valid tail; (C2) all strings over {<,1,9,>,space,-,a} of length 0-6 (thorough 0-7) as they are (no tail); (C3) all such strings of length 0-4 " +
			"continued by the tail and cut to 30..33 bytes in total; (D) one token at a length boundary - host / app / vhost / msgid / pid / SD / message (plain, with an escape sequence, unescaped length, with a class head, " +
			"in 3-byte runes) of 15, 16, 31, 32, 255, 256, 65535, 65536, 65537 bytes; message of limit+255, +256, +257, 2 x, 3 x limit and of ListenerLineBufferSize; whole record of InputLogMaxRecordBytes -1/0/+1; under the shipped " +
			"limits whole record of 2^n -1/0/+1 for n = 10..21 - x at most one non-normal option of another token, under both limit variants (shipped limits also between pooled sentinels of > 1 KiB); (E) the units the framer " +
			"hands over: {nothing, record, record with escapes, short head, garbage} followed by 0-2 attached lines of {empty, garbage, short head, over-limit, binary}, and lumps of ListenerLineBufferSize-1 / ListenerLineBufferSize bytes " +
			"(record, record with lines, garbage, newlines), x 3 sentinel sets x 2 shapes x 2 limit variants; (F) the menus of (A), all combinations with at most 3 (scaled) / 2 (shipped limits) non-normal tokens (thorough 4 / 3), between " +
			"feature-rich sentinels (class head, task id, vhost, escape sequences, 3-byte rune, e-mail address; app=appServ variant with in-place e-mail redaction; > 1 KiB variant in pooled buffers) x 2 shapes (flush tick behind " +
			"sentinel-2 / between RECORD and sentinel-2 with sentinel-3 arriving meanwhile); (G) 18 input classes x 22000 (thorough 202000) distinct records with constant key fields through ONE agent core, live heap read after 2000, " +
			"12000 and 22000 records. Oracle: no panic; every line counted exactly once at the input; a record outside the documented grammar rejected, one inside it accepted and recognised by the record-start test, a line not " +
			"beginning with '<' not recognised; pipeline passed+dropped = input passed; events delivered per output = pipeline passed; every chunk decodable; the three sentinels delivered unchanged (equal, in full, to their delivery " +
			"without the bad record), once, in order, on both outputs; (G) live heap growth over the last 10000 records <= 256 KiB + 1/8 of the bytes fed. " +
			"non-trivial = the record passes the 32-byte / '<' gate of the parser",
		Assumptions: []string{
			"the hybrid buffer and the forwarding clients are not part of this harness (a chunk is opaque to them; C02/C03/C04 cover them): the chunk handed to the buffer is captured and decoded",
			"the pipeline worker's handlers (onInput, onTick) run on the harness goroutine through a test-only accessor so that a panic is attributed to its input; their code is the repository's",
			"an agent core (receiver, orchestrator, pipelines) serves up to 128 consecutive cases and its flush tick fires every 32 cases; everything found that way is re-run alone on a fresh core and that verdict is reported " +
				"(a finding that needs the earlier cases gets the prefix after-earlier-input:); a replay always runs the case alone on a fresh core",
			"defs.IntermediateFlushInterval is set to 0 so that every periodic flush finds its interval elapsed (no wall clock in the oracle); defs.IntermediateBufferedChannelSize is raised from 1 to 16 because the harness goroutine " +
				"serves the pipelines' input channels between the steps of a case instead of concurrently (a send must never wait for a receiver that runs later)",
			"grammar used by the oracle (DESIGN A.2): must-reject = no leading '<', first token not ending in '>1', fewer than six header tokens after the PRI; must-accept = PRI 1-3 digits <= 191, six non-empty header tokens of " +
				"printable ASCII, header within 256 bytes (InputLogMaxRecordBytes - InputLogMaxMessageBytes), total length >= 32 - whatever the length of the message (it is cut to the limit, not rejected); everything else " +
				"(other PRI spellings, empty or non-ASCII tokens, no message part, shorter than 32, longer header) may be rejected or accepted; the record-start test may answer either way for everything between must-accept and no leading '<'",
			"a label value that is not valid UTF-8 makes the Prometheus registry of the pipelines unreadable (Gather fails) without any panic; pipeline-level counters are then not compared (delivery still is); counted in the evidence notes - a C19 matter",
			"the content of the delivered bad record is not judged here (C09/C10), only that it is counted, that its chunk decodes and that it leaves its neighbours alone",
			"(G) 'the agent process keeps running' is read as: input cannot make the process grow without bound. Pipelines, queues and metric series per key set / metric key set are documented to live until restart " +
				"(config_sample.yml: 'idle pipelines and queues are never destroyed'), so the soak records keep app, level, task, host, vhost and source constant and vary everything else; the bound (256 KiB + 1/8 of the bytes fed " +
				"per 10000 records, measured as HeapAlloc after two forced collections, delivered chunks dropped by the harness) is far above what the unchanged tree shows (evidence notes soak_*) and far below one retained copy per record",
		},
		Enumerate:        enumerate,
		QuickDeadline:    20 * time.Minute,
		ThoroughDeadline: 45 * time.Minute,
	})
}
