package main

import (
	"bytes"
	"compress/gzip"
	"encoding/json"
	"fmt"
	"io"
	"runtime/debug"
	"sort"
	"strings"

	"github.com/relex/fluentlib/protocol/forwardprotocol"
	"github.com/relex/gotils/logger"
	"github.com/relex/gotils/promexporter/promreg"
	"github.com/relex/slog-agent/base"
	"github.com/relex/slog-agent/base/bconfig"
	"github.com/relex/slog-agent/base/bsupport"
	"github.com/relex/slog-agent/defs"
	"github.com/relex/slog-agent/orchestrate/obykeyset"
	"github.com/relex/slog-agent/run"
	"github.com/vmihailenco/msgpack/v4"

	"slogverif/hutil"
)

// world is what is loaded once per process: the parsed sample configuration.
type world struct {
	conf        run.Config
	schema      base.LogSchema
	inputCfg    bconfig.LogInputConfig
	orchKeys    []string
	tagTemplate string
	outputNames []string
}

func loadWorld(path string) *world {
	conf, schema, _, err := run.ParseConfigFile(path)
	if err != nil {
		panic("sample configuration does not load: " + err.Error())
	}
	oc, ok := conf.Orchestration.Value.(*obykeyset.Config)
	if !ok {
		panic("sample configuration is expected to use the byKeySet orchestrator")
	}
	w := &world{conf: conf, schema: schema, inputCfg: conf.Inputs[0].Value, orchKeys: oc.Keys, tagTemplate: oc.TagTemplate}
	for _, p := range conf.OutputBuffersPairs {
		w.outputNames = append(w.outputNames, p.Name)
	}
	return w
}

// limits is one variant of the size limits in defs (package variables read when components are built and at parse time).
type limits struct {
	name       string
	maxMessage int
}

func (l limits) apply() {
	defs.InputLogMaxMessageBytes = l.maxMessage
	defs.InputLogMaxRecordBytes = l.maxMessage + 256 // same relation as defs/params.go
	defs.ListenerLineBufferSize = defs.InputLogMaxRecordBytes * 4
	// every periodic flush finds its interval elapsed: "time between two cases >= the flush interval", no wall clock involved
	defs.IntermediateFlushInterval = 0
	// The pipeline workers' input channels are served by the harness goroutine between the steps of a case instead of
	// concurrently: give them room for all buffers of one case, so that a send never waits (with the shipped capacity
	// of 1 the second buffer of a case - e.g. after a forced flush at IntermediateBufferMaxTotalBytes - would sit in
	// the 60 s channel timeout because nobody receives at that moment).
	defs.IntermediateBufferedChannelSize = 16
}

// pipe is one per-key-set pipeline created by the real orchestrator through our PipelineStarter.
type pipe struct {
	id, tag string
	ch      <-chan []*base.LogRecord
	worker  *bsupport.LogProcessingWorker
	chunks  [][]base.LogChunk // per output, in the order handed to AcceptChunk
	entered int               // records handed to the worker since the last tick
}

// inst is a fresh agent core: parsing receiver -> real byKeySet orchestrator -> real LogProcessingWorker per key set
// (transforms, serializers, chunk makers built from the configuration exactly as obase.PrepareSequentialPipeline does)
// -> capture. The hybrid buffer and the forwarding client are left out (chunks are opaque to them; C02/C03 cover them)
// and the worker's handlers run on the calling goroutine.
type inst struct {
	w         *world
	inFactory *promreg.MetricFactory
	plFactory *promreg.MetricFactory
	alloc     *base.LogAllocator
	orch      base.Orchestrator
	recv      base.MultiSinkMessageReceiver
	pipes     []*pipe
}

func (w *world) newInst() *inst {
	in := &inst{w: w}
	in.inFactory = promreg.NewMetricFactory("v_", nil, nil)
	in.plFactory = promreg.NewMetricFactory("v_", nil, nil)
	in.alloc = base.NewLogAllocator(w.schema, len(w.conf.OutputBuffersPairs))
	metricKeyLocators := w.schema.MustCreateFieldLocators(w.conf.MetricKeys)

	starter := func(parentLogger logger.Logger, metricCreator promreg.MetricCreator,
		input <-chan []*base.LogRecord, bufferID string, outputTag string, onStopped func(),
	) {
		p := &pipe{id: bufferID, tag: outputTag, ch: input, chunks: make([][]base.LogChunk, len(w.conf.OutputBuffersPairs))}
		outputs := make([]bsupport.OutputInterface, len(w.conf.OutputBuffersPairs))
		for i, pair := range w.conf.OutputBuffersPairs {
			i := i
			outputLogger := parentLogger.WithField("output", pair.Name)
			outputs[i] = bsupport.OutputInterface{
				LogSerializer: pair.OutputConfig.Value.NewSerializer(outputLogger, w.schema, outputTag),
				LogChunkMaker: pair.OutputConfig.Value.NewChunkMaker(outputLogger, outputTag),
				Name:          pair.Name,
				AcceptChunk:   func(c base.LogChunk) { p.chunks[i] = append(p.chunks[i], c) },
			}
		}
		procTracker := base.NewLogProcessCounter(metricCreator, w.schema, metricKeyLocators, w.outputNames)
		p.worker = bsupport.NewLogProcessingWorker(parentLogger, input, in.alloc, procTracker,
			bsupport.NewTransformsFromConfig(w.conf.Transformations, w.schema, parentLogger, procTracker), outputs)
		in.pipes = append(in.pipes, p)
	}
	in.orch = obykeyset.NewOrchestrator(logger.Root(), w.schema, w.orchKeys, w.tagTemplate, in.plFactory, starter, nil)

	createParser := func(l logger.Logger, ic *base.LogInputCounterSet) base.LogParser {
		p, err := w.inputCfg.NewParser(l, in.alloc, w.schema, ic)
		if err != nil {
			panic("parser: " + err.Error())
		}
		return p
	}
	in.recv = bsupport.NewLogParsingReceiver(logger.Root(), createParser, in.orch,
		in.inFactory.AddOrGetPrefix("input_", []string{"protocol"}, []string{"syslog"}))
	return in
}

// session is a running agent core with two open client connections.
type session struct {
	in      *inst
	lim     limits
	c1, c2  base.MessageReceiverSink
	cases   int
	prev    counts
	inPass  interface{ Get() uint64 }
	inDrop  interface{ Get() uint64 }
	gatherE bool
	scratch []byte
}

func (w *world) newSession(lim limits) *session {
	lim.apply()
	in := w.newInst()
	s := &session{in: in, lim: lim}
	s.c1 = in.recv.NewSink("10.0.0.1:1001", 1)
	s.c2 = in.recv.NewSink("10.0.0.1:1002", 2)
	mc := in.inFactory.AddOrGetPrefix("input_", []string{"protocol"}, []string{"syslog"})
	s.inPass = mc.AddOrGetCounter("passed_records_total", "", nil, nil)
	s.inDrop = mc.AddOrGetCounter("dropped_records_total", "", nil, nil)
	return s
}

// exchange plays one case on the two connections and returns the counter increments. The pipelines' input channels are
// served on the calling goroutine.
//
//	shape 0: connection 1 receives the given lines (the way multiLineReader hands records over) and its periodic flush
//	         fires; then connection 2 receives one line and flushes.
//	shape 1: the periodic flush of connection 1 falls between the last-but-one line and the last one (between the bad
//	         record and the record behind it), and connection 2's line arrives while connection 1 still holds its last
//	         line unflushed; then connection 1 flushes, then connection 2.
func (s *session) exchange(conn1 []string, conn2 string, shape int) counts {
	s.lim.apply()
	s.cases++
	for i, l := range conn1 {
		if shape == 1 && i == len(conn1)-1 {
			s.c1.Flush()
			s.in.drain()
		}
		s.accept(s.c1, l)
	}
	if shape == 1 {
		s.accept(s.c2, conn2)
	}
	s.c1.Flush()
	s.in.drain()
	if shape != 1 {
		s.accept(s.c2, conn2)
	}
	s.c2.Flush()
	s.in.drain()
	p, d := int(s.inPass.Get()), int(s.inDrop.Get())
	c := counts{inPassed: p - s.prev.inPassed, inDropped: d - s.prev.inDropped}
	s.prev.inPassed, s.prev.inDropped = p, d
	return c
}

// feed hands lines to connection 1 only (soak groups): a flush every 100 lines.
func (s *session) feed(n int, gen func(i int) string, from int) (bytes int) {
	s.lim.apply()
	for i := from; i < from+n; i++ {
		l := gen(i)
		bytes += len(l)
		s.accept(s.c1, l)
		if i%100 == 99 {
			s.c1.Flush()
			s.in.drain()
		}
	}
	s.c1.Flush()
	s.in.drain()
	return bytes
}

// judged forgets what has been delivered so far (called once the output of a tick has been judged).
func (s *session) judged() {
	for _, p := range s.in.pipes {
		for o := range p.chunks {
			p.chunks[o] = p.chunks[o][:0]
		}
		p.entered = 0
	}
}

// accept hands one record to a sink the way multiLineReader does: as a slice of a read buffer that is overwritten by
// the next read (so a record that keeps pointing into the caller's bytes shows up as corruption).
func (s *session) accept(sink base.MessageReceiverSink, line string) {
	if cap(s.scratch) < len(line) {
		s.scratch = make([]byte, len(line)+len(line)/2)
	}
	b := s.scratch[:len(line)]
	copy(b, line)
	sink.Accept(b)
	for i := range b {
		b[i] = 0xEE
	}
}

// tick fires every pipeline's periodic ticker (pending chunk flushed to the capture, metrics updated) and adds the
// pipeline-level counter increments since the previous tick to c.
func (s *session) tick(c *counts) {
	for _, p := range s.in.pipes {
		p.worker.VerifOnTick()
	}
	pm := hutil.Metrics(s.in.plFactory)
	if pm["__gather_error__"] != 0 {
		s.gatherE = true
	}
	pp, pd := int(hutil.Sum(pm, "v_process_passed_records_total")), int(hutil.Sum(pm, "v_process_dropped_records_total"))
	c.procPassed += pp - s.prev.procPassed
	c.procDropped += pd - s.prev.procDropped
	s.prev.procPassed, s.prev.procDropped = pp, pd
}

func (in *inst) drain() {
	for i := 0; i < len(in.pipes); i++ {
		p := in.pipes[i]
		for more := true; more; {
			select {
			case buf := <-p.ch:
				p.entered += len(buf)
				p.worker.VerifOnInput(buf)
			default:
				more = false
			}
		}
	}
}

// ------------------------------------------------------------------------------------------------------------------
// observation: independent decoding of the captured chunks

// entry is one delivered event in canonical text form.
type entry struct {
	pipe int
	text string
}

func canon(v interface{}) string {
	b, err := json.Marshal(v)
	if err != nil {
		return "unmarshalable:" + err.Error()
	}
	return string(b)
}

// decode returns the events delivered to one output, pipeline by pipeline, chunk by chunk, in order.
func (in *inst) decode(output int) ([]entry, error) {
	var out []entry
	for pi, p := range in.pipes {
		for _, c := range p.chunks[output] {
			switch in.w.outputNames[output] {
			case "customFluentd":
				var m forwardprotocol.Message
				if err := msgpack.NewDecoder(bytes.NewReader(c.Data)).Decode(&m); err != nil {
					return nil, fmt.Errorf("fluentd chunk %s of pipeline %q does not decode: %w", c.ID, p.id, err)
				}
				for _, e := range m.Entries {
					out = append(out, entry{pi, fmt.Sprintf("tag=%s time=%d.%09d %s", m.Tag, e.Time.Unix(), e.Time.Nanosecond(), canon(e.Record))})
				}
			default:
				zr, err := gzip.NewReader(bytes.NewReader(c.Data))
				if err != nil {
					return nil, fmt.Errorf("datadog chunk %s of pipeline %q is not gzip: %w", c.ID, p.id, err)
				}
				raw, err := io.ReadAll(zr)
				if err != nil {
					return nil, fmt.Errorf("datadog chunk %s of pipeline %q does not gunzip: %w", c.ID, p.id, err)
				}
				var arr []map[string]interface{}
				if err := json.Unmarshal(raw, &arr); err != nil {
					return nil, fmt.Errorf("datadog chunk %s of pipeline %q is not a JSON array of objects: %w", c.ID, p.id, err)
				}
				for _, e := range arr {
					out = append(out, entry{pi, canon(e)})
				}
			}
		}
	}
	return out, nil
}

// counts read from the metric registries
type counts struct {
	inPassed, inDropped     int
	procPassed, procDropped int
}

// ------------------------------------------------------------------------------------------------------------------

// catch runs f; on a panic it returns the first slog-agent frame below the panic ("pkg.func") - frames of gotils (its
// logger.Panic wrappers, promreg) and of the leaf helper packages fastmsgpack and util are skipped so that the key
// names the slog-agent call site - and a trimmed stack.
func catch(f func()) (site, detail string) {
	defer func() {
		if r := recover(); r != nil {
			st := string(debug.Stack())
			site = agentSite(st)
			lines := strings.Split(st, "\n")
			keep := []string{}
			for _, l := range lines {
				if strings.Contains(l, "runtime/debug") || strings.Contains(l, "slogverif/") {
					continue
				}
				keep = append(keep, l)
				if len(keep) > 24 {
					break
				}
			}
			detail = fmt.Sprintf("panic: %.300v\n%s", r, strings.Join(keep, "\n"))
		}
	}()
	f()
	return "", ""
}

func agentSite(stack string) string {
	lines := strings.Split(stack, "\n")
	seenPanic := false
	for _, l := range lines {
		if strings.HasPrefix(l, "panic(") {
			seenPanic = true
			continue
		}
		if !seenPanic || !strings.HasPrefix(l, "github.com/relex/slog-agent/") {
			continue
		}
		if strings.HasPrefix(l, "github.com/relex/slog-agent/output/fastmsgpack.") || strings.HasPrefix(l, "github.com/relex/slog-agent/util.") {
			continue // leaf helpers (inlined encoders): name their caller, so that one overflow has one key
		}
		fn := l[strings.LastIndex(l, "/")+1:]
		if j := strings.LastIndex(fn, "("); j > 0 {
			fn = fn[:j]
		}
		// closures: keep the enclosing function
		for strings.HasSuffix(fn, ".func1") || strings.HasSuffix(fn, ".func2") || strings.HasSuffix(fn, ".func3") {
			fn = fn[:len(fn)-6]
		}
		return fn
	}
	return "unknown"
}

func sortedKeys(m map[string]int64) []string {
	ks := make([]string, 0, len(m))
	for k := range m {
		ks = append(ks, k)
	}
	sort.Strings(ks)
	return ks
}
