package main

import (
	"fmt"
	"os"
	"runtime"
	"runtime/pprof"
	"strings"
)

// (G) resource oracle at record level: "the agent process keeps running" also means that what clients send cannot make the
// process grow without bound. N DISTINCT records of one input class go through ONE long-lived agent core (all with the
// same key fields and metric key fields: pipelines and metric series per key set are documented to live until restart, so
// new key values are NOT part of this group); the live heap (HeapAlloc after a forced collection) is read after a warm-up,
// after N records and after 2N records. Between the last two readings it may grow by a constant plus a small fraction of
// the bytes fed; something that keeps every distinct value (or the record around it) grows by more than all bytes fed.

type soakClass struct {
	name string
	gen  func(i int) string
}

func soakClasses() []soakClass {
	const a = "<13>1 "
	const b = " sentHost sentApp 1 sent.log - "
	return []soakClass{
		{"bad-time-zone", func(i int) string {
			return fmt.Sprintf("%s2020-01-01T00:00:02+%07dq%ssoak message with an invalid time zone", a, i, b)
		}},
		{"bad-time-zone-long", func(i int) string {
			return fmt.Sprintf("%s2020-01-01T00:00:02.123+%07d%s%ssoak message with a long invalid time zone", a, i, strings.Repeat("z", 180), b)
		}},
		{"bad-fraction", func(i int) string {
			return fmt.Sprintf("%s2020-01-01T00:00:02.%dx%dZ%ssoak message with an invalid fraction", a, i, i, b)
		}},
		{"bad-timestamp", func(i int) string { return fmt.Sprintf("%sT%07d%ssoak message with an invalid timestamp", a, i, b) }},
		{"valid-fraction", func(i int) string {
			return fmt.Sprintf("%s2020-01-01T00:00:02.%06dZ%ssoak message, well-formed", a, i%1000000, b)
		}},
		{"bad-pri", func(i int) string {
			return fmt.Sprintf("<%dx>1 2020-01-01T00:00:02Z%ssoak message with an invalid PRI", i, b)
		}},
		{"bad-facility", func(i int) string {
			return fmt.Sprintf("<%d>1 2020-01-01T00:00:02Z%ssoak message with an invalid PRI", 192+i, b)
		}},
		{"garbage-line", func(i int) string {
			return fmt.Sprintf("garbage %d that is long enough to pass the minimal record length", i)
		}},
		{"short-line", func(i int) string { return fmt.Sprintf("<%d", i) }},
		{"missing-fields", func(i int) string {
			return fmt.Sprintf("%s2020-01-01T00:00:02Z sentHost%d-and-nothing-more-behind-the-host", a, i)
		}},
		{"pid-sd-message", func(i int) string {
			return fmt.Sprintf("%s2020-01-01T00:00:02Z sentHost sentApp %d sent.log [x%d] soak message number %d", a, i, i, i)
		}},
		{"class", func(i int) string {
			return fmt.Sprintf("%s2020-01-01T00:00:02Z%s[Cls%d] - soak message with a class", a, b, i)
		}},
		{"invalid-utf8-message", func(i int) string { return fmt.Sprintf("%s2020-01-01T00:00:02Z%s\xff\xfe soak %d \xc3", a, b, i) }},
		{"invalid-utf8-header", func(i int) string {
			return fmt.Sprintf("%s2020-01-01T00:00:02Z sent\xffHost%d sentApp 1 sent.log - soak message with a broken host", a, i)
		}},
		{"multi-line", func(i int) string {
			return fmt.Sprintf("%s2020-01-01T00:00:02Z%ssoak message\nwith garbage line %d attached\n\n<%d", a, b, i, i)
		}},
		{"escapes", func(i int) string {
			return fmt.Sprintf(`%s2020-01-01T00:00:02Z%ssoak \n\t message %d \\ with escapes`, a, b, i)
		}},
		{"e-mail", func(i int) string {
			return fmt.Sprintf("<11>1 2020-01-01T00:00:02Z sentHost appServ 1 main.log - soak message from user%d@example%d.com", i, i)
		}},
		{"pooled-size", func(i int) string {
			return fmt.Sprintf("%s2020-01-01T00:00:02+%07dq%ssoak message %d beyond the pooling threshold %s", a, i, b, i, strings.Repeat("p", 1100+i%900))
		}},
	}
}

// soakProfile, if set (diagnostics only), makes every heap reading also write a heap profile <prefix>.<n>.pprof
var (
	soakProfile string
	soakReading int
)

func liveHeap() int64 {
	runtime.GC()
	runtime.GC()
	if soakProfile != "" {
		soakReading++
		if f, err := os.Create(fmt.Sprintf("%s.%d.pprof", soakProfile, soakReading)); err == nil {
			pprof.Lookup("heap").WriteTo(f, 0)
			f.Close()
		}
	}
	var m runtime.MemStats
	runtime.ReadMemStats(&m)
	return int64(m.HeapAlloc)
}

func enumSoak(h *harness) {
	ctx := h.ctx
	ctx.Group("G/soak/prod")
	warm, n := 2000, 10000
	if ctx.Thorough() {
		n = 100000
	}
	for _, c := range soakClasses() {
		c := c
		if !ctx.Mine() {
			ctx.Skip()
			continue
		}
		ctx.Case("G/prod/"+c.name, true, c.name, func() (string, string) {
			h.flushBatch()
			h.sess = nil
			key, msg := h.soak(c, warm, n)
			bugLog.Reset()
			return key, msg
		})
	}
}

func (h *harness) soak(c soakClass, warm, n int) (key, msg string) {
	s := h.w.newSession(prod)
	site, detail := catch(func() {
		round := func(from, n int) (fed int) {
			for done := 0; done < n; done += 1000 {
				k := n - done
				if k > 1000 {
					k = 1000
				}
				fed += s.feed(k, c.gen, from+done)
				var cc counts
				s.tick(&cc)
				s.judged() // what was delivered is dropped: the harness itself must not hold on to it
			}
			return fed
		}
		round(0, warm)
		h0 := liveHeap()
		round(warm, n)
		h1 := liveHeap()
		fed := round(warm+n, n)
		h2 := liveHeap()
		if got := int(s.inPass.Get()) + int(s.inDrop.Get()); got != warm+2*n {
			key, msg = "accounting:input-lines-not-counted-once", fmt.Sprintf("%d records of class %s sent on one connection, input passed+dropped=%d", warm+2*n, c.name, got)
			return
		}
		allowed := int64(256*1024 + fed/8)
		if h.ctx != nil {
			h.ctx.Note("soak_"+c.name, fmt.Sprintf("live heap after %d / %d / %d records: %d / %d / %d bytes; growth over the last %d records (%d bytes fed): %d, allowed %d",
				warm, warm+n, warm+2*n, h0, h1, h2, n, fed, h2-h1, allowed))
		}
		if h2-h1 > allowed {
			key = "resource:heap-grows-with-distinct-bad-input:" + c.name
			msg = fmt.Sprintf("one agent core, records of class %s, all distinct, same key fields (e.g. %q): live heap after %d records %d bytes, after %d records %d bytes, after %d records %d bytes: "+
				"the last %d records (%d bytes) made it grow by %d bytes (allowed: 256 KiB + 1/8 of the bytes fed = %d)",
				c.name, c.gen(warm), warm, h0, warm+n, h1, warm+2*n, h2, n, fed, h2-h1, allowed)
		}
	})
	if site != "" {
		return "panic:" + site, detail
	}
	if line := bugLog.FirstBugLine(); line != "" && key == "" {
		return "logged-bug", "the agent logged: " + line
	}
	return key, msg
}
