// Command crashfs decides C04 by fault and crash enumeration: the real hybridbuffer persistence path (chunk operator,
// util.WriteFileAt / ReadFileAt) runs over the vfs syscall seam; for every chunk size, every position of the affected
// chunk and every syscall boundary / byte offset of its file write, a fault (space limit after k bytes, error at
// open/close/rename) or a crash (process death) is injected; then a second generation recovers the directory with a
// strict consumer that compares every chunk it is offered with what was produced.
//
// Every case runs the real code under the cooperative scheduler with the default schedule (deterministic).
package main

import (
	"flag"
	"time"

	"fmt"
	"github.com/relex/fluentlib/protocol/forwardprotocol"
	"github.com/relex/slog-agent/output/datadog"
	"github.com/relex/slog-agent/output/fluentdforward"
	"os"
	"os/exec"
	"path/filepath"
	"sort"
	"strings"

	"github.com/c2h5oh/datasize"
	"github.com/relex/gotils/logger"
	"github.com/relex/gotils/promexporter/promreg"
	"github.com/relex/slog-agent/base"
	"github.com/relex/slog-agent/buffer/hybridbuffer"
	"github.com/relex/slog-agent/defs"
	"golang.org/x/sys/unix"

	"slogverif/hutil"
	"slogverif/rt/vfs"
	"slogverif/rt/vsched"
	"slogverif/seq"
)

var logs = &hutil.LogCapture{}
var flagLogs = flag.Bool("logs", false, "echo agent logs")

// idKind selects the chunk names and the matcher of the current case: "plain" (harness names NNNN.ch with a suffix matcher),
// "ff" / "dd" (IDs produced by the real Fluentd / Datadog chunk makers, matched by the output's own MatchChunkID — the
// pair the agent really runs with: what the matcher accepts decides which files of a queue directory are recovered).
var idKind = "plain"

var realIDs = map[string][]string{}
var realMatch = map[string]func(string) bool{}

func initRealIDs() {
	schema := base.MustNewLogSchema([]string{"host", "log"})
	ff := &fluentdforward.Config{
		Serialization: fluentdforward.SerializationConfig{EnvironmentFields: []string{"host"}},
		MessageMode:   forwardprotocol.ModeCompressedPackedForward,
		Upstream:      fluentdforward.UpstreamConfig{Address: "localhost:24224", MaxDuration: time.Minute},
	}
	if err := ff.VerifyConfig(schema); err != nil {
		panic(fmt.Sprintf("harness bug: fluentd configuration rejected: %v", err))
	}
	dd := &datadog.Config{Upstream: datadog.UpstreamConfig{Address: "https://localhost/api/v2/logs", HTTPTimeout: time.Second}}
	if err := dd.VerifyConfig(schema); err != nil {
		panic(fmt.Sprintf("harness bug: datadog configuration rejected: %v", err))
	}
	makers := map[string]base.LogChunkMaker{"ff": ff.NewChunkMaker(logger.Root(), "tag"), "dd": dd.NewChunkMaker(logger.Root(), "tag")}
	realMatch["ff"], realMatch["dd"] = ff.MatchChunkID, dd.MatchChunkID
	for _, k := range []string{"ff", "dd"} {
		for i := 0; i < 7; i++ { // 1, 3, 5 name the chunks; 0, 2, 6 name damaged entries placed before / between / behind them
			makers[k].WriteStream(base.LogStream([]byte("{}")))
			c := makers[k].FlushBuffer()
			if c == nil {
				panic("harness bug: the chunk maker produced no chunk")
			}
			realIDs[k] = append(realIDs[k], c.ID)
		}
		if !sort.StringsAreSorted(realIDs[k]) {
			panic(fmt.Sprintf("harness bug: generated chunk IDs are not ascending: %v", realIDs[k]))
		}
	}
}

func matchChunkID(id string) bool {
	if idKind == "plain" {
		return strings.HasSuffix(id, ".ch")
	}
	return realMatch[idKind](id)
}

func chunkID(i int) string {
	if idKind == "plain" {
		return fmt.Sprintf("%04d.ch", i+1)
	}
	return realIDs[idKind][2*i+1]
}

func chunkData(i, n int) []byte {
	b := make([]byte, n)
	for j := range b {
		b[j] = byte('A' + i*7 + j)
	}
	return b
}

type caseSpec struct {
	size    int
	pos     int    // which of the three chunks is affected
	mode    string // "" / "spill-at-accept": spilled at Accept; "save-at-shutdown": chunks stay in memory and are saved by the feeder at shutdown; "hand-back": the consumer holds them and hands them back at shutdown (saved by OnChunkLeftover)
	maxBuf  int    // > 0: configured size limit of the queue in bytes (default 1 GiB)
	plan    vfs.Plan
	idKind  string // "" = plain
	foreign string // extra file placed in the queue directory before the first generation ("", "zero", "badname", "subdir")
	desc    string
}

type genResult struct {
	status  string
	detail  string
	offered []base.LogChunk
	dropped int
	ioErrs  int
	log     []vfs.Call
	misuse  []string
}

func choose0(*vsched.ChoicePoint) int { return 0 }

func queueDir(root string) string {
	ents, _ := os.ReadDir(filepath.Join(root, "buf"))
	for _, e := range ents {
		if e.IsDir() {
			return filepath.Join(root, "buf", e.Name())
		}
	}
	return ""
}

func listFiles(dir string) map[string][]byte {
	out := map[string][]byte{}
	ents, _ := os.ReadDir(dir)
	for _, e := range ents {
		if e.IsDir() || e.Name() == ".id" {
			continue
		}
		d, _ := os.ReadFile(filepath.Join(dir, e.Name()))
		out[e.Name()] = d
	}
	return out
}

// gen1 runs the first generation: three chunks accepted, then Destroy. Returns when done or at the crash point.
func gen1(root string, c caseSpec, snapshot string) genResult {
	var r genResult
	if c.mode == "save-at-shutdown" || c.mode == "hand-back" {
		defs.BufferMaxNumChunksInMemory = 10
	} else {
		defs.BufferMaxNumChunksInMemory = 0
	}
	maxBuf := datasize.ByteSize(1 << 30)
	if c.maxBuf > 0 {
		maxBuf = datasize.ByteSize(c.maxBuf)
	}
	defs.BufferMaxNumChunksInQueue = 50
	mf := promreg.NewMetricFactory("g1_", nil, nil)
	res := vsched.Run(vsched.Options{Choose: choose0, MaxSteps: 20000}, func() {
		cfg := hybridbuffer.Config{RootPath: filepath.Join(root, "buf"), MaxBufSize: maxBuf}
		buf := cfg.NewBufferer(logger.Root(), "q1", matchChunkID, mf, false)
		qdir := buf.(interface{ QueueDirPath() string }).QueueDirPath()
		_ = qdir
		buf.Start()
		args := buf.RegisterNewConsumer()
		if c.mode == "hand-back" {
			// a consumer that takes every chunk offered, keeps it, and hands everything back when the input is closed
			vsched.Go("consumer", func() {
				var held []base.LogChunk
				for {
					sel := vsched.Select("consumer.select", false, vsched.RecvCase(args.InputChannel), vsched.RecvCase(args.InputClosed.Channel()))
					if sel.Index == 1 {
						break
					}
					chunk, ok := vsched.SelRecv2(&sel, args.InputChannel)
					if !ok {
						break
					}
					held = append(held, chunk)
				}
				for _, chunk := range held {
					args.OnChunkLeftover(chunk)
				}
				args.OnFinished()
			})
		} else {
			// a consumer that takes nothing and finishes at stop
			vsched.Go("consumer", func() {
				vsched.Recv(args.InputClosed.Channel(), "consumer.wait-stop")
				args.OnFinished()
			})
		}
		vfs.Begin(c.plan, func() {
			if snapshot != "" {
				exec.Command("cp", "-a", root+"/.", snapshot).Run()
			}
		})
		for i := 0; i < 3; i++ {
			vsched.Lazy("driver.accept")
			buf.Accept(base.LogChunk{ID: chunkID(i), Data: chunkData(i, c.size)})
		}
		vsched.Lazy("driver.destroy")
		buf.Destroy()
		vsched.Recv(buf.Stopped().Channel(), "driver.wait-stopped")
	})
	r.misuse = vfs.Misuse()
	r.log = vfs.End()
	r.status, r.detail = res.Status, res.Detail
	m := hutil.Metrics(mf)
	r.dropped = int(hutil.Sum(m, "g1_dropped_chunks_total"))
	r.ioErrs = int(hutil.Sum(m, "g1_io_errors_total"))
	return r
}

// gen2 recovers the directory with a strict consumer that confirms everything it is offered.
func gen2(root string) genResult {
	var r genResult
	defs.BufferMaxNumChunksInMemory = 2
	mf := promreg.NewMetricFactory("g2_", nil, nil)
	res := vsched.Run(vsched.Options{Choose: choose0, MaxSteps: 20000}, func() {
		cfg := hybridbuffer.Config{RootPath: filepath.Join(root, "buf"), MaxBufSize: datasize.ByteSize(1 << 30)}
		buf := cfg.NewBufferer(logger.Root(), "q1", matchChunkID, mf, false)
		buf.Start()
		args := buf.RegisterNewConsumer()
		vsched.Go("consumer", func() {
			for {
				sel := vsched.Select("consumer.select", false, vsched.RecvCase(args.InputChannel), vsched.RecvCase(args.InputClosed.Channel()))
				if sel.Index == 1 {
					break
				}
				chunk, ok := vsched.SelRecv2(&sel, args.InputChannel)
				if !ok {
					break
				}
				r.offered = append(r.offered, base.LogChunk{ID: chunk.ID, Data: append([]byte(nil), chunk.Data...), Saved: chunk.Saved})
				args.OnChunkConsumed(chunk)
			}
			args.OnFinished()
		})
		vsched.Idle()
		buf.Destroy()
		vsched.Recv(buf.Stopped().Channel(), "driver.wait-stopped")
	})
	r.status, r.detail = res.Status, res.Detail
	m := hutil.Metrics(mf)
	r.dropped = int(hutil.Sum(m, "g2_dropped_chunks_total"))
	r.ioErrs = int(hutil.Sum(m, "g2_io_errors_total"))
	return r
}

// runCase executes both generations and applies the oracle.
func runCase(c caseSpec) (string, string) {
	prevKind := idKind
	idKind = "plain"
	if c.idKind != "" {
		idKind = c.idKind
	}
	defer func() { idKind = prevKind }()
	logs.Reset()
	logs.Echo = *flagLogs
	root := hutil.ScratchRoot("crashfs")
	defer os.RemoveAll(root)
	snapshot := ""
	if c.plan.Crash {
		snapshot = root + "-snap"
		defer os.RemoveAll(snapshot)
	}
	g1 := gen1(root, c, snapshot)
	recoverRoot := root
	crashed := vfs.HasCrashed()
	switch {
	case c.plan.Crash && crashed:
		recoverRoot = snapshot
	case c.plan.Crash && !crashed:
		// the crash point does not exist in this run (fewer syscalls than planned): nothing to check
		return "", ""
	case len(g1.misuse) > 0:
		// a descriptor number closed twice: whichever goroutine was handed that number in between (Accept spilling a chunk, the
		// upstream dial) loses its file, and its next write lands wherever the number points then - an altered chunk under a
		// final name with no error counted
		return "descriptor:closed-twice", fmt.Sprintf("%s: %s", c.desc, strings.Join(g1.misuse, "; "))
	case g1.status != "ok":
		return "gen1-" + g1.status, fmt.Sprintf("%s: first generation ended with %s: %s", c.desc, g1.status, firstLines(g1.detail, 6))
	}
	// damaged / foreign entries found at startup: placed in the queue directory between the two generations, before,
	// between and behind the real chunks
	if c.foreign != "" {
		qdir := queueDir(recoverRoot)
		names := map[string]string{"first": "0000.ch", "middle": "0001a.ch", "last": "9999.ch"}
		if idKind != "plain" {
			names = map[string]string{"first": realIDs[idKind][0], "middle": realIDs[idKind][2], "last": realIDs[idKind][6]}
		}
		kind, pos := c.foreign, "first"
		if i := strings.IndexByte(c.foreign, '@'); i > 0 {
			kind, pos = c.foreign[:i], c.foreign[i+1:]
		}
		switch kind {
		case "zero":
			os.WriteFile(filepath.Join(qdir, names[pos]), nil, 0o644)
		case "badname":
			os.WriteFile(filepath.Join(qdir, names[pos]+".tmp"), []byte("garbage"), 0o644)
			os.WriteFile(filepath.Join(qdir, "README"), []byte("x"), 0o644)
		case "subdir":
			os.Mkdir(filepath.Join(qdir, names[pos]), 0o755)
		case "symlink-dangling":
			os.Symlink(filepath.Join(qdir, "nowhere"), filepath.Join(qdir, names[pos]))
		}
	}
	g2 := gen2(recoverRoot)
	if g2.status != "ok" {
		return "recovery-" + g2.status, fmt.Sprintf("%s: recovery ended with %s: %s | syscalls: %s", c.desc, g2.status, firstLines(g2.detail, 6), vfs.Describe(g1.log))
	}
	// ---- oracle
	offered := map[string][]byte{}
	order := []string{}
	for _, ch := range g2.offered {
		if _, dup := offered[ch.ID]; dup {
			return "offered-twice", fmt.Sprintf("%s: chunk %s offered twice after restart", c.desc, ch.ID)
		}
		offered[ch.ID] = ch.Data
		order = append(order, ch.ID)
	}
	if !sort.StringsAreSorted(order) {
		return "recovery-order", fmt.Sprintf("%s: recovered chunks offered out of order: %v", c.desc, order)
	}
	kind := "fault"
	if c.plan.Crash {
		kind = "crash"
	} else if c.plan.LimitBytes >= 0 {
		kind = "short-write"
		if c.plan.LimitBytes == 0 {
			kind = "write-error"
		}
	} else if c.plan.FailOp == "close" && c.plan.CloseLosesData {
		kind = "close-loses-data"
	} else if c.plan.FailOp != "" {
		kind = c.plan.FailOp + "-error"
	} else if c.plan.ShortOnce > 0 || c.plan.MaxPerWrite > 0 {
		kind = "short-then-ok"
	} else if c.maxBuf > 0 {
		kind = "space-limit"
	}
	missing := 0
	for i := 0; i < 3; i++ {
		id := chunkID(i)
		want := chunkData(i, c.size)
		got, wasOffered := offered[id]
		if wasOffered && string(got) != string(want) {
			cls := "altered"
			if len(got) < len(want) && string(want[:len(got)]) == string(got) {
				cls = "truncated"
			}
			return fmt.Sprintf("%s-chunk-forwarded:%s", cls, kind), fmt.Sprintf("%s: after restart chunk %s was forwarded with %d bytes %q, produced %d bytes %q | syscalls: %s",
				c.desc, id, len(got), got, len(want), want, vfs.Describe(g1.log))
		}
		if c.maxBuf > 0 {
			// configured size limit smaller than the three chunks: whichever chunk does not fit is not forwarded and accounted
			if !wasOffered {
				missing++
			}
			continue
		}
		if i != c.pos || (c.plan.File == "") {
			if c.plan.Crash && i > c.pos {
				continue // the process died before this chunk was persisted: it never reached the disk queue
			}
			if !wasOffered {
				return "undamaged-chunk-not-recovered:" + kind, fmt.Sprintf("%s: undamaged chunk %s was not recovered after restart (offered: %v) | syscalls: %s", c.desc, id, order, vfs.Describe(g1.log))
			}
			continue
		}
		// the affected chunk: intact, or not forwarded and accounted (dropped / corrupt / io error), or — after a crash —
		// never acknowledged as saved
		if !wasOffered && !c.plan.Crash {
			// "accounted as dropped or corrupt": the dropped-chunk counter, not merely an I/O error count
			if g1.dropped+g2.dropped == 0 {
				return "lost-unaccounted:" + kind, fmt.Sprintf("%s: chunk %s was not forwarded after restart and not counted as dropped (gen1 dropped=%d io-errors=%d, gen2 dropped=%d io-errors=%d) | syscalls: %s",
					c.desc, id, g1.dropped, g1.ioErrs, g2.dropped, g2.ioErrs, vfs.Describe(g1.log))
			}
		}
	}
	if c.maxBuf > 0 {
		if missing != 1 {
			return "space-limit:wrong-number-of-chunks-kept", fmt.Sprintf("%s: size limit %d bytes for three chunks of %d bytes: %d chunks were not recovered after restart (offered: %v), expected exactly one", c.desc, c.maxBuf, c.size, missing, order)
		}
		if g1.dropped+g2.dropped != missing {
			return "lost-unaccounted:" + kind, fmt.Sprintf("%s: %d chunk did not fit the size limit and was not forwarded, dropped_chunks_total gen1=%d gen2=%d", c.desc, missing, g1.dropped, g2.dropped)
		}
	}
	if strings.HasPrefix(c.foreign, "zero@") && g2.dropped < 1 {
		return "lost-unaccounted:zero-length-chunk-file", fmt.Sprintf("%s: a zero-length file under a chunk name was found at startup, not forwarded, and not counted as dropped / corrupt (gen2 dropped=%d)", c.desc, g2.dropped)
	}
	for id := range offered {
		known := false
		for i := 0; i < 3; i++ {
			if id == chunkID(i) {
				known = true
			}
		}
		if !known {
			return "foreign-file-forwarded", fmt.Sprintf("%s: %s was forwarded as a chunk (%d bytes)", c.desc, id, len(offered[id]))
		}
	}
	if line := logs.FirstBugLine(); line != "" {
		i := strings.Index(line, "BUG")
		return "bug-log:" + hutil.KeyFrom(line[i:], 40), fmt.Sprintf("%s: agent logged: %s", c.desc, line)
	}
	return "", ""
}

// ---------------------------------------------------------------------------------------------------------------
// root level: several queue directories under one root, as the orchestrator finds them at startup

var rootQueues = []string{"qa", "qb", "qc"}

func rootChunkID(q int) string   { return fmt.Sprintf("%04d.ch", q+1) }
func rootChunkData(q int) []byte { return chunkData(q, 4) }
func rootMatch(id string) bool   { return strings.HasSuffix(id, ".ch") }
func rootCfg(root string) hybridbuffer.Config {
	return hybridbuffer.Config{RootPath: filepath.Join(root, "buf"), MaxBufSize: datasize.ByteSize(1 << 30)}
}

// rootGenA: every queue spills one chunk and is shut down.
func rootGenA(root string) (string, string) {
	defs.BufferMaxNumChunksInMemory = 0
	defs.BufferMaxNumChunksInQueue = 50
	mf := promreg.NewMetricFactory("ra_", nil, nil)
	res := vsched.Run(vsched.Options{Choose: choose0, MaxSteps: 20000}, func() {
		cfg := rootCfg(root)
		for q, id := range rootQueues {
			buf := cfg.NewBufferer(logger.Root(), id, rootMatch, mf.AddOrGetPrefix(id+"_", nil, nil), false)
			buf.Start()
			args := buf.RegisterNewConsumer()
			vsched.Go("consumer", func() {
				vsched.Recv(args.InputClosed.Channel(), "consumer.wait-stop")
				args.OnFinished()
			})
			buf.Accept(base.LogChunk{ID: rootChunkID(q), Data: rootChunkData(q)})
			buf.Destroy()
			vsched.Recv(buf.Stopped().Channel(), "driver.wait-stopped")
		}
	})
	return res.Status, res.Detail
}

// rootGenB: the pipeline of one queue starts again on its existing directory (NewBufferer rewrites the directory's
// bookkeeping) under a plan; returns the syscall log.
func rootGenB(root string, q int, plan vfs.Plan, snapshot string) (string, string, []vfs.Call) {
	mf := promreg.NewMetricFactory("rb_", nil, nil)
	res := vsched.Run(vsched.Options{Choose: choose0, MaxSteps: 20000}, func() {
		cfg := rootCfg(root)
		vfs.Begin(plan, func() {
			if snapshot != "" {
				exec.Command("cp", "-a", root+"/.", snapshot).Run()
			}
		})
		buf := cfg.NewBufferer(logger.Root(), rootQueues[q], rootMatch, mf, false)
		buf.Start()
		args := buf.RegisterNewConsumer()
		vsched.Go("consumer", func() {
			vsched.Recv(args.InputClosed.Channel(), "consumer.wait-stop")
			args.OnFinished()
		})
		buf.Destroy()
		vsched.Recv(buf.Stopped().Channel(), "driver.wait-stopped")
	})
	log := vfs.End()
	return res.Status, res.Detail, log
}

// rootGenC: startup as the orchestrator does it: list the queues that hold chunks, start a pipeline buffer for each, drain.
func rootGenC(root string) (status, detail string, ids []string, offered map[string][]byte) {
	offered = map[string][]byte{}
	defs.BufferMaxNumChunksInMemory = 2
	mf := promreg.NewMetricFactory("rc_", nil, nil)
	res := vsched.Run(vsched.Options{Choose: choose0, MaxSteps: 20000}, func() {
		cfg := rootCfg(root)
		ids = cfg.ListBufferIDs(logger.Root(), rootMatch, mf.AddOrGetPrefix("recovery_", nil, nil))
		for i, id := range ids {
			buf := cfg.NewBufferer(logger.Root(), id, rootMatch, mf.AddOrGetPrefix(fmt.Sprintf("q%d_", i), nil, nil), false)
			buf.Start()
			args := buf.RegisterNewConsumer()
			vsched.Go("consumer", func() {
				for {
					sel := vsched.Select("consumer.select", false, vsched.RecvCase(args.InputChannel), vsched.RecvCase(args.InputClosed.Channel()))
					if sel.Index == 1 {
						break
					}
					chunk, ok := vsched.SelRecv2(&sel, args.InputChannel)
					if !ok {
						break
					}
					offered[id+"/"+chunk.ID] = append([]byte(nil), chunk.Data...)
					args.OnChunkConsumed(chunk)
				}
				args.OnFinished()
			})
			vsched.Idle()
			buf.Destroy()
			vsched.Recv(buf.Stopped().Channel(), "driver.wait-stopped")
		}
	})
	return res.Status, res.Detail, ids, offered
}

func queueDirOf(root, id string) string {
	ents, _ := os.ReadDir(filepath.Join(root, "buf"))
	for _, e := range ents {
		if e.IsDir() && strings.HasPrefix(e.Name(), id+".") {
			return filepath.Join(root, "buf", e.Name())
		}
	}
	return ""
}

type rootCase struct {
	umask   int
	damage  string // "", "id-empty", "id-missing", "id-dir", "foreign-file", "foreign-symlink", "foreign-dir"
	at      int    // queue index (damage of a queue) or 0 = sorts first / 1 = sorts last (foreign root entries)
	restart int    // >= 0: that queue's pipeline starts again under plan (generation B)
	plan    vfs.Plan
	desc    string
}

func runRootCase(c rootCase) (string, string) {
	logs.Reset()
	logs.Echo = *flagLogs
	old := unix.Umask(c.umask)
	defer unix.Umask(old)
	root := hutil.ScratchRoot("crashfs-root")
	defer os.RemoveAll(root)
	if st, d := rootGenA(root); st != "ok" {
		return "root:genA-" + st, c.desc + ": " + firstLines(d, 4)
	}
	recoverRoot := root
	required := []bool{true, true, true} // queues whose chunk must be recovered at startup
	var log []vfs.Call
	if c.restart >= 0 {
		snapshot := ""
		if c.plan.Crash {
			snapshot = root + "-snap"
			defer os.RemoveAll(snapshot)
		}
		st, d, l := rootGenB(root, c.restart, c.plan, snapshot)
		log = l
		crashed := vfs.HasCrashed()
		switch {
		case c.plan.Crash && crashed:
			recoverRoot = snapshot
		case c.plan.Crash && !crashed:
			return "", ""
		case st != "ok":
			return "root:genB-" + st, c.desc + ": " + firstLines(d, 4)
		}
	}
	bufRoot := filepath.Join(recoverRoot, "buf")
	switch c.damage {
	case "id-empty":
		// placed by hand (an operator, another tool): only the OTHER queues are required
		os.WriteFile(filepath.Join(queueDirOf(recoverRoot, rootQueues[c.at]), ".id"), nil, 0o644)
		required[c.at] = false
	case "id-missing":
		os.Remove(filepath.Join(queueDirOf(recoverRoot, rootQueues[c.at]), ".id"))
		required[c.at] = false
	case "id-dir":
		p := filepath.Join(queueDirOf(recoverRoot, rootQueues[c.at]), ".id")
		os.Remove(p)
		os.Mkdir(p, 0o755)
		required[c.at] = false
	case "foreign-file", "foreign-symlink", "foreign-dir":
		name := "000-first"
		if c.at == 1 {
			name = "zzz-last"
		}
		switch c.damage {
		case "foreign-file":
			os.WriteFile(filepath.Join(bufRoot, name), []byte("not a queue"), 0o644)
		case "foreign-symlink":
			os.Symlink(filepath.Join(bufRoot, "nowhere"), filepath.Join(bufRoot, name))
		case "foreign-dir":
			os.Mkdir(filepath.Join(bufRoot, name), 0o755) // e.g. lost+found: a directory without .id
		}
	}
	st, d, ids, offered := rootGenC(recoverRoot)
	if st != "ok" {
		return "root:startup-" + st, fmt.Sprintf("%s: startup ended with %s: %s", c.desc, st, firstLines(d, 6))
	}
	for q, id := range rootQueues {
		key := id + "/" + rootChunkID(q)
		got, ok := offered[key]
		if ok && string(got) != string(rootChunkData(q)) {
			return "root:altered-chunk-forwarded", fmt.Sprintf("%s: chunk of queue %s forwarded as %q, produced %q", c.desc, id, got, rootChunkData(q))
		}
		if !ok && required[q] {
			what := "queue-not-recovered-at-startup"
			switch {
			case c.restart == q:
				what = "queue-not-recovered-after-interrupted-restart"
			case c.damage != "":
				what = "other-queue-blocked-by-damaged-entry"
			case c.umask != 0o022:
				what = "queue-not-recovered-at-startup:umask"
			}
			return "root:" + what, fmt.Sprintf("%s: the chunk of queue %s is on disk but the startup listing returned %v and it was not recovered (umask %03o) | syscalls of the restart: %s", c.desc, id, ids, c.umask, vfs.Describe(log))
		}
	}
	for k := range offered {
		known := false
		for q, id := range rootQueues {
			if k == id+"/"+rootChunkID(q) {
				known = true
			}
		}
		if !known {
			return "root:foreign-file-forwarded", fmt.Sprintf("%s: %s was forwarded as a chunk", c.desc, k)
		}
	}
	if line := logs.FirstBugLine(); line != "" {
		i := strings.Index(line, "BUG")
		return "bug-log:" + hutil.KeyFrom(line[i:], 40), fmt.Sprintf("%s: agent logged: %s", c.desc, line)
	}
	return "", ""
}

// rootRestartOps: the syscalls touching the .id file when a pipeline starts again on an existing queue directory
func rootRestartOps() []vfs.Call {
	root := hutil.ScratchRoot("crashfs-root")
	defer os.RemoveAll(root)
	rootGenA(root)
	_, _, log := rootGenB(root, 1, vfs.Plan{File: ".id", LimitBytes: -1}, "")
	var out []vfs.Call
	for _, c := range log {
		if strings.HasSuffix(c.Name, ".id") || strings.Contains(c.Name, ".id.") || strings.Contains(c.Name, ".id->") {
			out = append(out, c)
		}
	}
	return out
}

func enumerateRoot(ctx *seq.Ctx) {
	for _, umask := range []int{0o022, 0o027, 0o077} {
		u := fmt.Sprintf("root/umask%03o", umask)
		ctx.Group("root/undamaged")
		ctx.Case(u+"/undamaged", true, "", func() (string, string) {
			return runRootCase(rootCase{umask: umask, restart: -1, desc: u + "/undamaged"})
		})
		if umask != 0o022 && !ctx.Thorough() {
			continue
		}
		ctx.Group("root/damaged-entry")
		for _, dmg := range []string{"id-empty", "id-missing", "id-dir"} {
			for at := 0; at < 3; at++ {
				desc := fmt.Sprintf("%s/%s@%s", u, dmg, rootQueues[at])
				ctx.Case(desc, true, "", func() (string, string) {
					return runRootCase(rootCase{umask: umask, damage: dmg, at: at, restart: -1, desc: desc})
				})
			}
		}
		for _, dmg := range []string{"foreign-file", "foreign-symlink", "foreign-dir"} {
			for at := 0; at < 2; at++ {
				desc := fmt.Sprintf("%s/%s@%d", u, dmg, at)
				ctx.Case(desc, true, "", func() (string, string) {
					return runRootCase(rootCase{umask: umask, damage: dmg, at: at, restart: -1, desc: desc})
				})
			}
		}
	}
	// a pipeline starts again on its existing queue directory and the process dies / the disk is full while the directory's
	// bookkeeping is rewritten: every syscall boundary and every byte offset of that write
	ops := rootRestartOps()
	ctx.Group("root/interrupted-restart")
	ctx.Case("root/restart/baseline", true, "", func() (string, string) {
		writes := 0
		for _, o := range ops {
			if o.Op == "write" {
				writes++
			}
		}
		if writes == 0 {
			return "seam-blind", fmt.Sprintf("the write of the queue directory's .id file is not observable through the syscall seam (ops: %s)", vfs.Describe(ops))
		}
		return runRootCase(rootCase{umask: 0o022, restart: 1, plan: vfs.Plan{LimitBytes: -1}, desc: "root/restart/baseline"})
	})
	for q := 0; q < 3; q++ {
		for at := 0; at <= len(ops); at++ {
			desc := fmt.Sprintf("root/restart-%s/crash-before-call%d", rootQueues[q], at)
			ctx.Case(desc, at < len(ops), "", func() (string, string) {
				return runRootCase(rootCase{umask: 0o022, restart: q, desc: desc, plan: vfs.Plan{File: ".id", LimitBytes: -1, Crash: true, CrashAt: at, CrashBytes: -1}})
			})
			if at < len(ops) && ops[at].Op == "write" {
				for k := 0; k <= ops[at].N; k++ {
					desc := fmt.Sprintf("root/restart-%s/crash-in-call%d-after-%dbytes", rootQueues[q], at, k)
					ctx.Case(desc, true, "", func() (string, string) {
						return runRootCase(rootCase{umask: 0o022, restart: q, desc: desc, plan: vfs.Plan{File: ".id", LimitBytes: -1, Crash: true, CrashAt: at, CrashBytes: k}})
					})
				}
			}
		}
		for _, errno := range []unix.Errno{unix.ENOSPC, unix.EIO} {
			desc := fmt.Sprintf("root/restart-%s/write-fails-%s", rootQueues[q], unix.ErrnoName(errno))
			ctx.Case(desc, true, "", func() (string, string) {
				return runRootCase(rootCase{umask: 0o022, restart: q, desc: desc, plan: vfs.Plan{File: ".id", LimitBytes: 0, LimitErrno: errno}})
			})
		}
	}
}

func firstLines(s string, n int) string {
	l := strings.Split(s, "\n")
	if len(l) > n {
		l = l[:n]
	}
	return strings.Join(l, " / ")
}

// fileOpsBaseline runs a fault-free first generation and returns the syscalls touching the affected chunk's file.
func fileOpsBaseline(size, pos int, mode string) []vfs.Call {
	root := hutil.ScratchRoot("crashfs")
	defer os.RemoveAll(root)
	g := gen1(root, caseSpec{size: size, pos: pos, mode: mode, plan: vfs.Plan{File: chunkID(pos), LimitBytes: -1}}, "")
	var out []vfs.Call
	for _, c := range g.log {
		if strings.Contains(c.Name, chunkID(pos)) {
			out = append(out, c)
		}
	}
	return out
}

func enumerate(ctx *seq.Ctx) {
	for _, kind := range []string{"plain", "ff", "dd"} {
		enumerateKind(ctx, kind)
	}
	enumerateRoot(ctx)
}

func enumerateKind(ctx *seq.Ctx, kind string) {
	idKind = kind
	defer func() { idKind = "plain" }()
	pfx, ck := "", ""
	if kind != "plain" {
		pfx, ck = kind+":", kind
	}
	for _, mode := range []string{"spill-at-accept", "save-at-shutdown", "hand-back"} {
		// quick: every size of the small menu in all three modes (2 s); thorough: every size 1..9 and the sizes around 16, 32, 64, 256, 1024 and
		// 100 bytes — every byte offset of every one of them is a limit, a short-write length, a close-keeps length and a crash point
		sizes := []int{1, 2, 3, 4, 5, 8, 13}
		if kind != "plain" {
			sizes = []int{1, 3, 8} // the real names change which files the matcher accepts, not the byte-level write path
		}
		if ctx.Thorough() {
			sizes = []int{1, 2, 3, 4, 5, 6, 7, 8, 9, 13, 16, 17, 31, 32, 33, 64, 100, 255, 256, 257, 1024}
			if kind != "plain" {
				sizes = []int{1, 3, 8, 17}
			}
		}
		for _, size := range sizes {
			for pos := 0; pos < 3; pos++ {
				file := chunkID(pos)
				base := fmt.Sprintf("%s%s/size%d/pos%d", pfx, mode, size, pos)
				// the write path of this file in a fault-free run (deterministic; computed in every process)
				ops := fileOpsBaseline(size, pos, mode)
				nWrite := 0
				writeOps := 0
				for i, o := range ops {
					if o.Op == "write" {
						nWrite = i
						writeOps++
					}
				}
				_ = nWrite
				ctx.Group(pfx + mode + "/baseline")
				ctx.Case(base+"/baseline", true, "", func() (string, string) {
					if writeOps == 0 {
						return "seam-blind", fmt.Sprintf("%s: the chunk file write is not observable through the syscall seam (ops: %s)", base, vfs.Describe(ops))
					}
					return runCase(caseSpec{idKind: ck, size: size, pos: pos, mode: mode, plan: vfs.Plan{LimitBytes: -1}, desc: base + "/baseline"})
				})
				// (a) space / size limit reached after k bytes
				ctx.Group(pfx + mode + "/limit")
				for k := 0; k < size; k++ {
					for _, errno := range []unix.Errno{unix.ENOSPC, unix.EFBIG, unix.EIO} {
						if k > 0 && errno != unix.ENOSPC {
							continue
						}
						desc := fmt.Sprintf("%s/limit%d/%s", base, k, unix.ErrnoName(errno))
						ctx.Case(desc, true, "", func() (string, string) {
							return runCase(caseSpec{idKind: ck, size: size, pos: pos, mode: mode, desc: desc,
								plan: vfs.Plan{File: file, LimitBytes: k, LimitErrno: errno}})
						})
					}
				}
				// (b) error at open / close / rename / fsync
				ctx.Group(pfx + mode + "/failop")
				for _, op := range []string{"openat", "close", "renameat", "fsync", "unlinkat", "read"} {
					desc := fmt.Sprintf("%s/fail-%s", base, op)
					occurs := false
					for _, o := range ops {
						if o.Op == op {
							occurs = true
						}
					}
					// an operation the write path does not use (no fsync today) is enumerated for the day it appears, not counted
					ctx.Case(desc, occurs, "", func() (string, string) {
						return runCase(caseSpec{idKind: ck, size: size, pos: pos, mode: mode, desc: desc,
							plan: vfs.Plan{File: file, LimitBytes: -1, FailOp: op, FailErrno: unix.EIO}})
					})
				}
				// (b2) the close fails because buffered data could not be written: the file keeps only its first j bytes
				ctx.Group(pfx + mode + "/close-loses-data")
				for j := 0; j < size; j++ {
					desc := fmt.Sprintf("%s/close-keeps-%d", base, j)
					ctx.Case(desc, true, "", func() (string, string) {
						return runCase(caseSpec{idKind: ck, size: size, pos: pos, mode: mode, desc: desc,
							plan: vfs.Plan{File: file, LimitBytes: -1, FailOp: "close", FailErrno: unix.EIO, CloseLosesData: true, CloseKeeps: j}})
					})
				}
				// (b3) short writes WITHOUT an error: the first write takes k bytes and the continuation succeeds; every write
				// takes at most c bytes. The chunk must come back byte-identical (or be accounted).
				ctx.Group(pfx + mode + "/short-then-ok")
				for k := 1; k < size; k++ {
					desc := fmt.Sprintf("%s/short-once-%d", base, k)
					ctx.Case(desc, true, "", func() (string, string) {
						return runCase(caseSpec{idKind: ck, size: size, pos: pos, mode: mode, desc: desc, plan: vfs.Plan{File: file, LimitBytes: -1, ShortOnce: k}})
					})
				}
				for _, c := range []int{1, 2} {
					if c >= size {
						continue
					}
					desc := fmt.Sprintf("%s/max-per-write-%d", base, c)
					ctx.Case(desc, true, "", func() (string, string) {
						return runCase(caseSpec{idKind: ck, size: size, pos: pos, mode: mode, desc: desc, plan: vfs.Plan{File: file, LimitBytes: -1, MaxPerWrite: c}})
					})
				}
				// (c) crash at every syscall boundary and after every k bytes of every write
				ctx.Group(pfx + mode + "/crash")
				for at := 0; at <= len(ops); at++ {
					desc := fmt.Sprintf("%s/crash-before-call%d", base, at)
					ctx.Case(desc, at < len(ops), "", func() (string, string) {
						return runCase(caseSpec{idKind: ck, size: size, pos: pos, mode: mode, desc: desc,
							plan: vfs.Plan{File: file, LimitBytes: -1, Crash: true, CrashAt: at, CrashBytes: -1}})
					})
					if at < len(ops) && ops[at].Op == "write" {
						for k := 0; k <= ops[at].N; k++ {
							desc := fmt.Sprintf("%s/crash-in-call%d-after-%dbytes", base, at, k)
							ctx.Case(desc, true, "", func() (string, string) {
								return runCase(caseSpec{idKind: ck, size: size, pos: pos, mode: mode, desc: desc,
									plan: vfs.Plan{File: file, LimitBytes: -1, Crash: true, CrashAt: at, CrashBytes: k}})
							})
						}
					}
				}
			}
		}
	}
	// (e) the configured size limit (no I/O error involved): three chunks against a limit of two
	ctx.Group(pfx + "space-limit")
	for _, mode := range []string{"spill-at-accept", "save-at-shutdown", "hand-back"} {
		for _, size := range []int{1, 3} {
			desc := fmt.Sprintf("%sspace-limit/%s/size%d", pfx, mode, size)
			ctx.Case(desc, true, "", func() (string, string) {
				return runCase(caseSpec{idKind: ck, size: size, pos: 2, mode: mode, maxBuf: 2 * size, desc: desc, plan: vfs.Plan{LimitBytes: -1}})
			})
		}
	}
	// (d) damaged or foreign files found at startup never block recovery of the others
	ctx.Group(pfx + "foreign-files")
	for _, kind := range []string{"zero", "badname", "subdir", "symlink-dangling"} {
		for _, pos := range []string{"first", "middle", "last"} {
			f := kind + "@" + pos
			desc := pfx + "foreign/" + f
			ctx.Case(desc, true, "", func() (string, string) {
				return runCase(caseSpec{idKind: ck, size: 3, pos: 1, foreign: f, desc: desc, plan: vfs.Plan{LimitBytes: -1}})
			})
		}
	}
}

func main() {
	logger.SetLogLevel(logger.InfoLevel)
	logger.SetOutput(logs)
	initRealIDs()
	seq.Main(&seq.Config{
		Property: "C04",
		Level:    "fault_enumeration",
		Rule: "for chunk sizes {1,2,3,4,5,8,13} (thorough 1..9,13,16,17,31,32,33,64,100,255,256,257,1024) x position of the affected chunk {first, middle, last} x {spilled at Accept, saved at shutdown}: every byte offset k at which the file write stops " +
			"(space/size limit: short write then ENOSPC; k=0: ENOSPC/EFBIG/EIO), an I/O error at open/close/rename/fsync, and process death before every syscall of the file's write path and after every k bytes of every write; " +
			"then restart on the resulting directory with a strict consumer; plus zero-length / foreign-name / directory entries at startup; non-trivial = every case (each injects at a point the baseline run showed to exist)",
		Assumptions: []string{
			"process death keeps the page cache: the crash state is a prefix of the syscall log (power loss / block reordering is outside the quantifier)",
			"faults are injected at the unix.* / os.Rename / os.Remove call sites of util and hybridbuffer through the vfs seam; a baseline case fails with key seam-blind if the write path is not observable there",
			"default (deterministic) schedule under the cooperative scheduler; schedules are explored by C03",
		},
		Enumerate: enumerate,
	})
}
