// Command crashfs decides C04 by fault and crash enumeration: the real hybridbuffer persistence path (chunk operator,
// util.WriteFileAt / ReadFileAt) runs over the vfs syscall seam; for every chunk size, every position of the affected
// chunk and every syscall boundary / byte offset of its file write, a fault (space limit after k bytes, error at
// open/close/rename) or a crash (process death) is injected; then a second generation recovers the directory with a
// strict consumer that compares every chunk it is offered with what was produced.
//
// Every case runs the real code under the cooperative scheduler with the default schedule (deterministic).
package main

import (
	"flag"
	"time"

	"fmt"
	"github.com/relex/fluentlib/protocol/forwardprotocol"
	"github.com/relex/slog-agent/output/datadog"
	"github.com/relex/slog-agent/output/fluentdforward"
	"os"
	"os/exec"
	"path/filepath"
	"sort"
	"strings"

	"github.com/c2h5oh/datasize"
	"github.com/relex/gotils/logger"
	"github.com/relex/gotils/promexporter/promreg"
	"github.com/relex/slog-agent/base"
	"github.com/relex/slog-agent/buffer/hybridbuffer"
	"github.com/relex/slog-agent/defs"
	"golang.org/x/sys/unix"

	"slogverif/hutil"
	"slogverif/rt/vfs"
	"slogverif/rt/vsched"
	"slogverif/seq"
)

var logs = &hutil.LogCapture{}
var flagLogs = flag.Bool("logs", false, "echo agent logs")

// idKind selects the chunk names and the matcher of the current case: "plain" (harness names NNNN.ch with a suffix matcher),
// "ff" / "dd" (IDs produced by the real Fluentd / Datadog chunk makers, matched by the output's own MatchChunkID — the
// pair the agent really runs with: what the matcher accepts decides which files of a queue directory are recovered).
var idKind = "plain"

var realIDs = map[string][]string{}
var realMatch = map[string]func(string) bool{}

func initRealIDs() {
	schema := base.MustNewLogSchema([]string{"host", "log"})
	ff := &fluentdforward.Config{
		Serialization: fluentdforward.SerializationConfig{EnvironmentFields: []string{"host"}},
		MessageMode:   forwardprotocol.ModeCompressedPackedForward,
		Upstream:      fluentdforward.UpstreamConfig{Address: "localhost:24224", MaxDuration: time.Minute},
	}
	if err := ff.VerifyConfig(schema); err != nil {
		panic(fmt.Sprintf("harness bug: fluentd configuration rejected: %v", err))
	}
	dd := &datadog.Config{Upstream: datadog.UpstreamConfig{Address: "https://localhost/api/v2/logs", HTTPTimeout: time.Second}}
	if err := dd.VerifyConfig(schema); err != nil {
		panic(fmt.Sprintf("harness bug: datadog configuration rejected: %v", err))
	}
	makers := map[string]base.LogChunkMaker{"ff": ff.NewChunkMaker(logger.Root(), "tag"), "dd": dd.NewChunkMaker(logger.Root(), "tag")}
	realMatch["ff"], realMatch["dd"] = ff.MatchChunkID, dd.MatchChunkID
	for _, k := range []string{"ff", "dd"} {
		for i := 0; i < 7; i++ { // 1, 3, 5 name the chunks; 0, 2, 6 name damaged entries placed before / between / behind them
			makers[k].WriteStream(base.LogStream([]byte("{}")))
			c := makers[k].FlushBuffer()
			if c == nil {
				panic("harness bug: the chunk maker produced no chunk")
			}
			realIDs[k] = append(realIDs[k], c.ID)
		}
		if !sort.StringsAreSorted(realIDs[k]) {
			panic(fmt.Sprintf("harness bug: generated chunk IDs are not ascending: %v", realIDs[k]))
		}
	}
}

func matchChunkID(id string) bool {
	if idKind == "plain" {
		return strings.HasSuffix(id, ".ch")
	}
	return realMatch[idKind](id)
}

func chunkID(i int) string {
	if idKind == "plain" {
		return fmt.Sprintf("%04d.ch", i+1)
	}
	return realIDs[idKind][2*i+1]
}

func chunkData(i, n int) []byte {
	b := make([]byte, n)
	for j := range b {
		b[j] = byte('A' + i*7 + j)
	}
	return b
}

type caseSpec struct {
	size    int
	pos     int  // which of the three chunks is affected
	atStop  bool // chunks stay in memory and are saved at shutdown (instead of being spilled at Accept)
	plan    vfs.Plan
	idKind  string // "" = plain
	foreign string // extra file placed in the queue directory before the first generation ("", "zero", "badname", "subdir")
	desc    string
}

type genResult struct {
	status  string
	detail  string
	offered []base.LogChunk
	dropped int
	ioErrs  int
	log     []vfs.Call
}

func choose0(*vsched.ChoicePoint) int { return 0 }

func queueDir(root string) string {
	ents, _ := os.ReadDir(filepath.Join(root, "buf"))
	for _, e := range ents {
		if e.IsDir() {
			return filepath.Join(root, "buf", e.Name())
		}
	}
	return ""
}

func listFiles(dir string) map[string][]byte {
	out := map[string][]byte{}
	ents, _ := os.ReadDir(dir)
	for _, e := range ents {
		if e.IsDir() || e.Name() == ".id" {
			continue
		}
		d, _ := os.ReadFile(filepath.Join(dir, e.Name()))
		out[e.Name()] = d
	}
	return out
}

// gen1 runs the first generation: three chunks accepted, then Destroy. Returns when done or at the crash point.
func gen1(root string, c caseSpec, snapshot string) genResult {
	var r genResult
	if c.atStop {
		defs.BufferMaxNumChunksInMemory = 10
	} else {
		defs.BufferMaxNumChunksInMemory = 0
	}
	defs.BufferMaxNumChunksInQueue = 50
	mf := promreg.NewMetricFactory("g1_", nil, nil)
	res := vsched.Run(vsched.Options{Choose: choose0, MaxSteps: 20000}, func() {
		cfg := hybridbuffer.Config{RootPath: filepath.Join(root, "buf"), MaxBufSize: datasize.ByteSize(1 << 30)}
		buf := cfg.NewBufferer(logger.Root(), "q1", matchChunkID, mf, false)
		qdir := buf.(interface{ QueueDirPath() string }).QueueDirPath()
		_ = qdir
		buf.Start()
		args := buf.RegisterNewConsumer()
		// a consumer that takes nothing and finishes at stop
		vsched.Go("consumer", func() {
			vsched.Recv(args.InputClosed.Channel(), "consumer.wait-stop")
			args.OnFinished()
		})
		vfs.Begin(c.plan, func() {
			if snapshot != "" {
				exec.Command("cp", "-a", root+"/.", snapshot).Run()
			}
		})
		for i := 0; i < 3; i++ {
			vsched.Lazy("driver.accept")
			buf.Accept(base.LogChunk{ID: chunkID(i), Data: chunkData(i, c.size)})
		}
		vsched.Lazy("driver.destroy")
		buf.Destroy()
		vsched.Recv(buf.Stopped().Channel(), "driver.wait-stopped")
	})
	r.log = vfs.End()
	r.status, r.detail = res.Status, res.Detail
	m := hutil.Metrics(mf)
	r.dropped = int(hutil.Sum(m, "g1_dropped_chunks_total"))
	r.ioErrs = int(hutil.Sum(m, "g1_io_errors_total"))
	return r
}

// gen2 recovers the directory with a strict consumer that confirms everything it is offered.
func gen2(root string) genResult {
	var r genResult
	defs.BufferMaxNumChunksInMemory = 2
	mf := promreg.NewMetricFactory("g2_", nil, nil)
	res := vsched.Run(vsched.Options{Choose: choose0, MaxSteps: 20000}, func() {
		cfg := hybridbuffer.Config{RootPath: filepath.Join(root, "buf"), MaxBufSize: datasize.ByteSize(1 << 30)}
		buf := cfg.NewBufferer(logger.Root(), "q1", matchChunkID, mf, false)
		buf.Start()
		args := buf.RegisterNewConsumer()
		vsched.Go("consumer", func() {
			for {
				sel := vsched.Select("consumer.select", false, vsched.RecvCase(args.InputChannel), vsched.RecvCase(args.InputClosed.Channel()))
				if sel.Index == 1 {
					break
				}
				chunk, ok := vsched.SelRecv2(&sel, args.InputChannel)
				if !ok {
					break
				}
				r.offered = append(r.offered, base.LogChunk{ID: chunk.ID, Data: append([]byte(nil), chunk.Data...), Saved: chunk.Saved})
				args.OnChunkConsumed(chunk)
			}
			args.OnFinished()
		})
		vsched.Idle()
		buf.Destroy()
		vsched.Recv(buf.Stopped().Channel(), "driver.wait-stopped")
	})
	r.status, r.detail = res.Status, res.Detail
	m := hutil.Metrics(mf)
	r.dropped = int(hutil.Sum(m, "g2_dropped_chunks_total"))
	r.ioErrs = int(hutil.Sum(m, "g2_io_errors_total"))
	return r
}

// runCase executes both generations and applies the oracle.
func runCase(c caseSpec) (string, string) {
	prevKind := idKind
	idKind = "plain"
	if c.idKind != "" {
		idKind = c.idKind
	}
	defer func() { idKind = prevKind }()
	logs.Reset()
	logs.Echo = *flagLogs
	root := hutil.ScratchRoot("crashfs")
	defer os.RemoveAll(root)
	snapshot := ""
	if c.plan.Crash {
		snapshot = root + "-snap"
		defer os.RemoveAll(snapshot)
	}
	g1 := gen1(root, c, snapshot)
	recoverRoot := root
	crashed := vfs.HasCrashed()
	switch {
	case c.plan.Crash && crashed:
		recoverRoot = snapshot
	case c.plan.Crash && !crashed:
		// the crash point does not exist in this run (fewer syscalls than planned): nothing to check
		return "", ""
	case g1.status != "ok":
		return "gen1-" + g1.status, fmt.Sprintf("%s: first generation ended with %s: %s", c.desc, g1.status, firstLines(g1.detail, 6))
	}
	// damaged / foreign entries found at startup: placed in the queue directory between the two generations, before,
	// between and behind the real chunks
	if c.foreign != "" {
		qdir := queueDir(recoverRoot)
		names := map[string]string{"first": "0000.ch", "middle": "0001a.ch", "last": "9999.ch"}
		if idKind != "plain" {
			names = map[string]string{"first": realIDs[idKind][0], "middle": realIDs[idKind][2], "last": realIDs[idKind][6]}
		}
		kind, pos := c.foreign, "first"
		if i := strings.IndexByte(c.foreign, '@'); i > 0 {
			kind, pos = c.foreign[:i], c.foreign[i+1:]
		}
		switch kind {
		case "zero":
			os.WriteFile(filepath.Join(qdir, names[pos]), nil, 0o644)
		case "badname":
			os.WriteFile(filepath.Join(qdir, names[pos]+".tmp"), []byte("garbage"), 0o644)
			os.WriteFile(filepath.Join(qdir, "README"), []byte("x"), 0o644)
		case "subdir":
			os.Mkdir(filepath.Join(qdir, names[pos]), 0o755)
		case "symlink-dangling":
			os.Symlink(filepath.Join(qdir, "nowhere"), filepath.Join(qdir, names[pos]))
		}
	}
	g2 := gen2(recoverRoot)
	if g2.status != "ok" {
		return "recovery-" + g2.status, fmt.Sprintf("%s: recovery ended with %s: %s | syscalls: %s", c.desc, g2.status, firstLines(g2.detail, 6), vfs.Describe(g1.log))
	}
	// ---- oracle
	offered := map[string][]byte{}
	order := []string{}
	for _, ch := range g2.offered {
		if _, dup := offered[ch.ID]; dup {
			return "offered-twice", fmt.Sprintf("%s: chunk %s offered twice after restart", c.desc, ch.ID)
		}
		offered[ch.ID] = ch.Data
		order = append(order, ch.ID)
	}
	if !sort.StringsAreSorted(order) {
		return "recovery-order", fmt.Sprintf("%s: recovered chunks offered out of order: %v", c.desc, order)
	}
	kind := "fault"
	if c.plan.Crash {
		kind = "crash"
	} else if c.plan.LimitBytes >= 0 {
		kind = "short-write"
		if c.plan.LimitBytes == 0 {
			kind = "write-error"
		}
	} else if c.plan.FailOp != "" {
		kind = c.plan.FailOp + "-error"
	}
	for i := 0; i < 3; i++ {
		id := chunkID(i)
		want := chunkData(i, c.size)
		got, wasOffered := offered[id]
		if wasOffered && string(got) != string(want) {
			cls := "altered"
			if len(got) < len(want) && string(want[:len(got)]) == string(got) {
				cls = "truncated"
			}
			return fmt.Sprintf("%s-chunk-forwarded:%s", cls, kind), fmt.Sprintf("%s: after restart chunk %s was forwarded with %d bytes %q, produced %d bytes %q | syscalls: %s",
				c.desc, id, len(got), got, len(want), want, vfs.Describe(g1.log))
		}
		if i != c.pos || (c.plan.File == "") {
			if c.plan.Crash && i > c.pos {
				continue // the process died before this chunk was persisted: it never reached the disk queue
			}
			if !wasOffered {
				return "undamaged-chunk-not-recovered:" + kind, fmt.Sprintf("%s: undamaged chunk %s was not recovered after restart (offered: %v) | syscalls: %s", c.desc, id, order, vfs.Describe(g1.log))
			}
			continue
		}
		// the affected chunk: intact, or not forwarded and accounted (dropped / corrupt / io error), or — after a crash —
		// never acknowledged as saved
		if !wasOffered && !c.plan.Crash {
			if g1.dropped+g2.dropped+g1.ioErrs+g2.ioErrs == 0 {
				return "lost-unaccounted:" + kind, fmt.Sprintf("%s: chunk %s was not forwarded after restart and no drop / io error was counted (gen1 dropped=%d io=%d, gen2 dropped=%d io=%d) | syscalls: %s",
					c.desc, id, g1.dropped, g1.ioErrs, g2.dropped, g2.ioErrs, vfs.Describe(g1.log))
			}
		}
	}
	for id := range offered {
		known := false
		for i := 0; i < 3; i++ {
			if id == chunkID(i) {
				known = true
			}
		}
		if !known {
			return "foreign-file-forwarded", fmt.Sprintf("%s: %s was forwarded as a chunk (%d bytes)", c.desc, id, len(offered[id]))
		}
	}
	if line := logs.FirstBugLine(); line != "" {
		i := strings.Index(line, "BUG")
		return "bug-log:" + hutil.KeyFrom(line[i:], 40), fmt.Sprintf("%s: agent logged: %s", c.desc, line)
	}
	return "", ""
}

func firstLines(s string, n int) string {
	l := strings.Split(s, "\n")
	if len(l) > n {
		l = l[:n]
	}
	return strings.Join(l, " / ")
}

// fileOpsBaseline runs a fault-free first generation and returns the syscalls touching the affected chunk's file.
func fileOpsBaseline(size, pos int, atStop bool) []vfs.Call {
	root := hutil.ScratchRoot("crashfs")
	defer os.RemoveAll(root)
	g := gen1(root, caseSpec{size: size, pos: pos, atStop: atStop, plan: vfs.Plan{File: chunkID(pos), LimitBytes: -1}}, "")
	var out []vfs.Call
	for _, c := range g.log {
		if strings.Contains(c.Name, chunkID(pos)) {
			out = append(out, c)
		}
	}
	return out
}

func enumerate(ctx *seq.Ctx) {
	for _, kind := range []string{"plain", "ff", "dd"} {
		enumerateKind(ctx, kind)
	}
}

func enumerateKind(ctx *seq.Ctx, kind string) {
	idKind = kind
	defer func() { idKind = "plain" }()
	pfx, ck := "", ""
	if kind != "plain" {
		pfx, ck = kind+":", kind
	}
	modes := []bool{false, true}
	for _, atStop := range modes {
		mode := "spill-at-accept"
		sizes := []int{1, 2, 3, 5, 8}
		if ctx.Thorough() {
			sizes = []int{1, 2, 3, 4, 5, 8, 13}
			if kind != "plain" {
				sizes = []int{1, 3, 8} // the real names change which files the matcher accepts, not the byte-level write path
			}
		} else if kind != "plain" {
			sizes = []int{3}
		}
		if atStop {
			mode = "save-at-shutdown"
			if !ctx.Thorough() {
				sizes = []int{3}
			}
		}
		for _, size := range sizes {
			for pos := 0; pos < 3; pos++ {
				file := chunkID(pos)
				base := fmt.Sprintf("%s%s/size%d/pos%d", pfx, mode, size, pos)
				// the write path of this file in a fault-free run (deterministic; computed in every process)
				ops := fileOpsBaseline(size, pos, atStop)
				nWrite := 0
				writeOps := 0
				for i, o := range ops {
					if o.Op == "write" {
						nWrite = i
						writeOps++
					}
				}
				_ = nWrite
				ctx.Group(pfx + mode + "/baseline")
				ctx.Case(base+"/baseline", true, "", func() (string, string) {
					if writeOps == 0 {
						return "seam-blind", fmt.Sprintf("%s: the chunk file write is not observable through the syscall seam (ops: %s)", base, vfs.Describe(ops))
					}
					return runCase(caseSpec{idKind: ck, size: size, pos: pos, atStop: atStop, plan: vfs.Plan{LimitBytes: -1}, desc: base + "/baseline"})
				})
				// (a) space / size limit reached after k bytes
				ctx.Group(pfx + mode + "/limit")
				for k := 0; k < size; k++ {
					for _, errno := range []unix.Errno{unix.ENOSPC, unix.EFBIG, unix.EIO} {
						if k > 0 && errno != unix.ENOSPC {
							continue
						}
						desc := fmt.Sprintf("%s/limit%d/%s", base, k, unix.ErrnoName(errno))
						ctx.Case(desc, true, "", func() (string, string) {
							return runCase(caseSpec{idKind: ck, size: size, pos: pos, atStop: atStop, desc: desc,
								plan: vfs.Plan{File: file, LimitBytes: k, LimitErrno: errno}})
						})
					}
				}
				// (b) error at open / close / rename / fsync
				ctx.Group(pfx + mode + "/failop")
				for _, op := range []string{"openat", "close", "renameat", "fsync"} {
					desc := fmt.Sprintf("%s/fail-%s", base, op)
					ctx.Case(desc, true, "", func() (string, string) {
						return runCase(caseSpec{idKind: ck, size: size, pos: pos, atStop: atStop, desc: desc,
							plan: vfs.Plan{File: file, LimitBytes: -1, FailOp: op, FailErrno: unix.EIO}})
					})
				}
				// (c) crash at every syscall boundary and after every k bytes of every write
				ctx.Group(pfx + mode + "/crash")
				for at := 0; at <= len(ops); at++ {
					desc := fmt.Sprintf("%s/crash-before-call%d", base, at)
					ctx.Case(desc, true, "", func() (string, string) {
						return runCase(caseSpec{idKind: ck, size: size, pos: pos, atStop: atStop, desc: desc,
							plan: vfs.Plan{File: file, LimitBytes: -1, Crash: true, CrashAt: at, CrashBytes: -1}})
					})
					if at < len(ops) && ops[at].Op == "write" {
						for k := 0; k <= ops[at].N; k++ {
							desc := fmt.Sprintf("%s/crash-in-call%d-after-%dbytes", base, at, k)
							ctx.Case(desc, true, "", func() (string, string) {
								return runCase(caseSpec{idKind: ck, size: size, pos: pos, atStop: atStop, desc: desc,
									plan: vfs.Plan{File: file, LimitBytes: -1, Crash: true, CrashAt: at, CrashBytes: k}})
							})
						}
					}
				}
			}
		}
	}
	// (d) damaged or foreign files found at startup never block recovery of the others
	ctx.Group(pfx + "foreign-files")
	for _, kind := range []string{"zero", "badname", "subdir", "symlink-dangling"} {
		for _, pos := range []string{"first", "middle", "last"} {
			f := kind + "@" + pos
			desc := pfx + "foreign/" + f
			ctx.Case(desc, true, "", func() (string, string) {
				return runCase(caseSpec{idKind: ck, size: 3, pos: 1, foreign: f, desc: desc, plan: vfs.Plan{LimitBytes: -1}})
			})
		}
	}
}

func main() {
	logger.SetLogLevel(logger.InfoLevel)
	logger.SetOutput(logs)
	initRealIDs()
	seq.Main(&seq.Config{
		Property: "C04",
		Level:    "fault_enumeration",
		Rule: "for chunk sizes {1,2,3,5,8} (thorough +4,13) x position of the affected chunk {first, middle, last} x {spilled at Accept, saved at shutdown}: every byte offset k at which the file write stops " +
			"(space/size limit: short write then ENOSPC; k=0: ENOSPC/EFBIG/EIO), an I/O error at open/close/rename/fsync, and process death before every syscall of the file's write path and after every k bytes of every write; " +
			"then restart on the resulting directory with a strict consumer; plus zero-length / foreign-name / directory entries at startup; non-trivial = every case (each injects at a point the baseline run showed to exist)",
		Assumptions: []string{
			"process death keeps the page cache: the crash state is a prefix of the syscall log (power loss / block reordering is outside the quantifier)",
			"faults are injected at the unix.* / os.Rename / os.Remove call sites of util and hybridbuffer through the vfs seam; a baseline case fails with key seam-blind if the write path is not observable there",
			"default (deterministic) schedule under the cooperative scheduler; schedules are explored by C03",
		},
		Enumerate: enumerate,
	})
}
