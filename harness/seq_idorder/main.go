// Command seq_idorder is part 4 of C05: chunks named by the REAL chunk ID generators (Fluentd and Datadog chunk makers)
// go through the REAL hybrid buffer, are spilled, and are recovered after a restart; the consumer must see them in creation
// order. The clock of the ID generator is controlled through the overlay seam (see harness/seq_chunks/overlay.sh): frozen
// (all IDs share one timestamp and differ in the sequence number only), stepping by 1 ns, stepping by a second, and
// crossing decimal digit-count boundaries of the sequence number (9 -> 10, 99 -> 100) — the recovery order is the order of
// the storage names, so the names have to sort like the creation order for every such history.
//
// Sequential, default schedule, real threads: the schedule dimension of recovery is decided by buffermc (C03/C05 part 3).
package main

import (
	"fmt"
	"os"
	"path/filepath"
	"time"

	"github.com/c2h5oh/datasize"
	"github.com/relex/fluentlib/protocol/forwardprotocol"
	"github.com/relex/gotils/logger"
	"github.com/relex/gotils/promexporter/promreg"
	"github.com/relex/slog-agent/base"
	"github.com/relex/slog-agent/buffer/hybridbuffer"
	"github.com/relex/slog-agent/defs"
	"github.com/relex/slog-agent/output/datadog"
	"github.com/relex/slog-agent/output/fluentdforward"
	"github.com/relex/slog-agent/output/shared"

	"slogverif/hutil"
	"slogverif/seq"
)

type maker struct {
	name  string
	mk    base.LogChunkMaker
	match func(string) bool
	rec   func(i int) base.LogStream
}

func makers() []maker {
	schema := base.MustNewLogSchema([]string{"host", "log"})
	ff := &fluentdforward.Config{
		Serialization: fluentdforward.SerializationConfig{EnvironmentFields: []string{"host"}},
		MessageMode:   forwardprotocol.ModePackedForward,
		Upstream:      fluentdforward.UpstreamConfig{Address: "localhost:24224", MaxDuration: time.Minute},
	}
	if err := ff.VerifyConfig(schema); err != nil {
		panic(err)
	}
	dd := &datadog.Config{Upstream: datadog.UpstreamConfig{Address: "https://localhost/api/v2/logs", HTTPTimeout: time.Second}}
	if err := dd.VerifyConfig(schema); err != nil {
		panic(err)
	}
	ser := ff.NewSerializer(logger.Root(), schema, "tag")
	ffRec := func(i int) base.LogStream {
		r := schema.NewTestRecord1(base.LogFields{"h", fmt.Sprintf("record %d", i)})
		return append(base.LogStream(nil), ser.SerializeRecord(r)...)
	}
	ddRec := func(i int) base.LogStream { return base.LogStream(fmt.Sprintf(`{"message":"record %d"}`, i)) }
	return []maker{
		{"fluentd", ff.NewChunkMaker(logger.Root(), "tag"), ff.MatchChunkID, ffRec},
		{"datadog", dd.NewChunkMaker(logger.Root(), "tag"), dd.MatchChunkID, ddRec},
	}
}

var clockBase int64 = 1_600_000_000_000_000_000

// clocks: name -> function of the call index giving the offset in ns from the case's base
var clocks = []struct {
	name string
	at   func(call int) int64
}{
	{"frozen", func(int) int64 { return 0 }},
	{"step-1ns", func(c int) int64 { return int64(c) }},
	{"step-1s", func(c int) int64 { return int64(c) * 1_000_000_000 }},
	{"frozen-then-step", func(c int) int64 {
		if c < 12 {
			return 0
		}
		return int64(c)
	}},
	{"pairs", func(c int) int64 { return int64(c / 2) }}, // every instant is read twice
}

func seamActive(m maker) bool {
	shared.VerifSetNow(func() time.Time { return time.Unix(0, 1_234_567_890_123_456_789) })
	defer shared.VerifSetNow(nil)
	m.mk.WriteStream(m.rec(0))
	c := m.mk.FlushBuffer()
	return c != nil && len(c.ID) >= 19 && c.ID[:19] == "1234567890123456789"
}

func runCase(m maker, clock int, n int, memCap int) (string, string) {
	clockBase += 1_000_000_000_000
	base0 := clockBase
	call := 0
	shared.VerifSetNow(func() time.Time { t := time.Unix(0, base0+clocks[clock].at(call)); call++; return t })
	defer shared.VerifSetNow(nil)
	// ---- create n chunks (one record each, cut by FlushBuffer)
	var created []base.LogChunk
	for i := 0; i < n; i++ {
		if c := m.mk.WriteStream(m.rec(i)); c != nil {
			created = append(created, *c)
		}
		if c := m.mk.FlushBuffer(); c != nil {
			created = append(created, *c)
		}
	}
	if len(created) != n {
		return "harness:chunk-count", fmt.Sprintf("%d chunks for %d records", len(created), n)
	}
	want := make([]string, n)
	for i, c := range created {
		want[i] = c.ID
	}
	// ---- generation 1: everything is queued, nothing is consumed, shutdown
	root := hutil.ScratchRoot("idorder")
	defer os.RemoveAll(root)
	defs.BufferMaxNumChunksInMemory = memCap
	defs.BufferMaxNumChunksInQueue = n + 10
	defs.BufferShutDownTimeout = 2 * time.Second
	cfg := hybridbuffer.Config{RootPath: filepath.Join(root, "buf"), MaxBufSize: datasize.ByteSize(1 << 30)}
	{
		buf := cfg.NewBufferer(logger.Root(), "q", m.match, promreg.NewMetricFactory("io1_", nil, nil), false)
		buf.Start()
		args := buf.RegisterNewConsumer()
		go func() {
			// takes nothing (what sits in the output channel at the stop is saved by the feeder)
			<-args.InputClosed.Channel()
			args.OnFinished()
		}()
		for _, c := range created {
			buf.Accept(base.LogChunk{ID: c.ID, Data: append([]byte(nil), c.Data...)})
		}
		buf.Destroy()
		<-buf.Stopped().Channel()
	}
	// ---- generation 2: recover, consume everything in the order offered
	var seen []string
	{
		buf := cfg.NewBufferer(logger.Root(), "q", m.match, promreg.NewMetricFactory("io2_", nil, nil), true)
		buf.Start()
		args := buf.RegisterNewConsumer()
		done := make(chan struct{})
		go func() {
			for c := range args.InputChannel {
				seen = append(seen, c.ID)
				args.OnChunkConsumed(c)
			}
			args.OnFinished()
			close(done)
		}()
		buf.Destroy() // send-all mode: waits until the consumer has confirmed everything
		<-buf.Stopped().Channel()
		<-done
	}
	if len(seen) != n {
		return "recovery:chunks-missing", fmt.Sprintf("%s/%s: %d chunks created and queued, %d offered after the restart", m.name, clocks[clock].name, n, len(seen))
	}
	for i := range seen {
		if seen[i] != want[i] {
			return "order:recovered-not-in-creation-order", fmt.Sprintf("%s, clock %s, %d chunks: after the restart the consumer is offered %s at position %d, the %d-th chunk created was %s (IDs in creation order: %v ...)",
				m.name, clocks[clock].name, n, seen[i], i, i, want[i], want[:min(n, 12)])
		}
	}
	return "", ""
}

func enumerate(ctx *seq.Ctx) {
	ms := makers()
	for _, m := range ms {
		if !seamActive(m) {
			ctx.Group("no-clock-seam")
			ctx.Case("seam/"+m.name, true, "", func() (string, string) {
				return "seam-blind", "the chunk ID generator does not read its clock through the overlay seam (output/shared/chunkidgen.go no longer calls time.Now()?): same-timestamp histories cannot be produced"
			})
			return
		}
	}
	counts := []int{2, 9, 10, 11, 12, 25}
	if ctx.Thorough() {
		counts = []int{2, 3, 9, 10, 11, 12, 25, 99, 100, 101, 120, 1001}
	}
	for _, m := range ms {
		m := m
		for ci := range clocks {
			for _, n := range counts {
				for _, memCap := range []int{0, 4} {
					ci, n, memCap := ci, n, memCap
					ctx.Group("idorder/" + m.name + "/" + clocks[ci].name)
					id := fmt.Sprintf("idorder/%s/%s/n%d/mem%d", m.name, clocks[ci].name, n, memCap)
					ctx.Case(id, true, id, func() (string, string) { return runCase(m, ci, n, memCap) })
				}
			}
		}
	}
}

func main() {
	logger.SetLogLevel(logger.ErrorLevel)
	seq.Main(&seq.Config{
		Property: "C05",
		Level:    "exploration",
		Rule: "chunks named by the real Fluentd and Datadog chunk ID generators under a controlled clock {frozen, +1 ns, +1 s, frozen for 12 reads then stepping, every instant read twice} x chunk counts across the digit-count " +
			"boundaries of the sequence number {2, 9, 10, 11, 12, 25; thorough also 99, 100, 101, 120, 1001} x memory window {0, 4}: queued in the real hybrid buffer, shut down, recovered by a second buffer on the same directory; " +
			"oracle: the consumer is offered every chunk, in creation order",
		Assumptions: []string{
			"default schedule on real threads; the schedules of recovery are explored by buffermc (C03, C05 part 3)",
			"a clock stepping backwards is outside the quantifier",
		},
		Enumerate: enumerate,
		MaxProcs:  8,
	})
}
