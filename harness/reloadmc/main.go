// Command reloadmc model-checks the real run.ReloadableOrchestrator (SIGHUP goroutine, reader/writer lock, client-slot
// table) at its API: two connections and one reload, recording downstream orchestrators. Serves C17 (API level).
package main

import (
	"flag"
	"fmt"
	"sort"
	"strings"
	"syscall"

	"github.com/prometheus/client_golang/prometheus"
	"github.com/relex/gotils/logger"
	"github.com/relex/slog-agent/base"
	"github.com/relex/slog-agent/run"

	"slogverif/explore"
	"slogverif/hutil"
	"slogverif/rt/vsched"
)

type params struct {
	name       string
	reuse      bool // connection B gets A's client number once A's socket is closed
	reloadFail bool // initiateReload returns an error
	twoReloads bool
	bFirst     bool // B starts without waiting (distinct numbers only)
	three      bool // a third connection C reuses the number once more while A and B are still closing
	noReload   bool
}

type world struct {
	p        params
	viol     []string
	violKey  string
	orcs     []*recOrc
	accepted map[string]string // record id -> connection, for every ReloadableSink.Accept that returned
	disk     []string          // queued records written to the on-disk queue by shut-down pipeline sets, not yet taken over
	markerA  bool
	markerB  bool
	cReg     bool // connection C has registered its sink (three-connection scenarios: A and B are slow closers until then)
	doneA    bool
	doneB    bool
	doneC    bool
	events   []string
}

func (w *world) violate(key, format string, args ...any) {
	msg := fmt.Sprintf(format, args...)
	w.viol = append(w.viol, msg)
	if w.violKey == "" {
		w.violKey = key
	}
	vsched.Note("VIOLATION %s: %s", key, msg)
}

// who names the running goroutine: connection A/B, the SIGHUP goroutine ("reload") or the driver.
func (w *world) who() string {
	_, name := vsched.Self()
	switch {
	case name == "connA":
		return "A"
	case name == "connC":
		return "C"
	case name == "connB":
		return "B"
	case name == "driver":
		return "driver"
	case strings.Contains(name, "reloadable.go"):
		return "reload"
	}
	return name
}

func (w *world) ev(format string, args ...any) {
	msg := fmt.Sprintf(format, args...)
	w.events = append(w.events, msg)
	vsched.Note("%s", msg)
}

// recOrc is a recording downstream orchestrator: sinks buffer records like the real per-key sink and deliver them on
// Tick/Close; records are delivered only while the orchestrator is alive.
type recOrc struct {
	w         *world
	name      string
	shutdown  bool
	sinks     []*recSink
	delivered []string
	tookOver  []string // queued chunks found on disk when this pipeline set was created
}

type recSink struct {
	orc      *recOrc
	owner    string // connection the sink was created for ("A"/"B"), by client address
	buf      []string
	closed   bool
	closedBy string
}

func (d *recOrc) NewSink(addr string, n base.ClientNumber) base.BufferReceiverSink {
	// the real orchestrators take locks and send on channels in here: a scheduling point inside the caller's critical section
	vsched.Yield("fake.NewSink")
	s := &recSink{orc: d, owner: addr}
	d.sinks = append(d.sinks, s)
	d.w.ev("%s.NewSink(%s,%d) by %s%s", d.name, addr, n, d.w.who(), deadMark(d))
	return s
}

func deadMark(d *recOrc) string {
	if d.shutdown {
		return " [orchestrator already shut down]"
	}
	return ""
}

func (d *recOrc) Shutdown() {
	d.w.ev("%s.Shutdown by %s", d.name, d.w.who())
	if d.shutdown {
		d.w.violate("double-shutdown", "%s shut down twice", d.name)
	}
	d.shutdown = true
	// like the real pipelines, a pipeline set writes what it still has queued to the on-disk queue when it is shut down;
	// a pipeline set created later scans the disk at creation and takes those chunks over
	d.w.disk = append(d.w.disk, d.delivered...)
}

func recID(r *base.LogRecord) string { return r.Fields[0] }

// dead reports a call on a sink that must not be used any more (also when it has nothing buffered)
func (s *recSink) dead(call string) {
	w := s.orc.w
	if s.closed {
		w.violate("call-on-closed-sink", "%s on the sink of connection %s in %s by %s after that sink had been closed (by %s)", call, s.owner, s.orc.name, w.who(), s.closedBy)
	} else if s.orc.shutdown {
		w.violate("call-on-dead-pipelines", "%s on the sink of connection %s by %s after pipeline set %s had been shut down", call, s.owner, w.who(), s.orc.name)
	}
}

func (s *recSink) Accept(buffer []*base.LogRecord) {
	vsched.Yield("fake.Accept")
	s.dead("Accept")
	w := s.orc.w
	for _, r := range buffer {
		s.buf = append(s.buf, recID(r))
		w.ev("%s sink(%s) accepts %s from %s%s", s.orc.name, s.owner, recID(r), w.who(), deadMark(s.orc))
		if s.orc.shutdown {
			w.violate("record-to-dead-pipelines", "record %s of connection %s was handed to pipeline set %s after it had been shut down", recID(r), w.who(), s.orc.name)
		}
		if s.owner != w.who() {
			w.violate("record-to-foreign-sink", "record %s of connection %s was handed to the sink created for connection %s", recID(r), w.who(), s.owner)
		}
	}
}

func (s *recSink) flush() {
	if len(s.buf) == 0 {
		return
	}
	if s.orc.shutdown {
		s.orc.w.violate("record-to-dead-pipelines", "records %v were flushed into pipeline set %s after it had been shut down", s.buf, s.orc.name)
		return
	}
	s.orc.delivered = append(s.orc.delivered, s.buf...)
	s.buf = nil
}

func (s *recSink) Tick() {
	vsched.Yield("fake.Tick")
	s.dead("Tick")
	s.flush()
}

func (s *recSink) Close() {
	vsched.Yield("fake.Close")
	s.dead("Close")
	w := s.orc.w
	w.ev("%s sink(%s) closed by %s", s.orc.name, s.owner, w.who())
	if w.who() != s.owner && w.who() != "reload" {
		w.violate("sink-closed-by-other-connection", "the sink of connection %s was closed by connection %s", s.owner, w.who())
	}
	s.flush()
	s.closed = true
	s.closedBy = w.who()
}

var schema = base.MustNewLogSchema([]string{"id"})

func rec(id string) []*base.LogRecord {
	return []*base.LogRecord{schema.NewTestRecord1(base.LogFields{id})}
}

var logs = &hutil.LogCapture{}
var flagLogs = flag.Bool("logs", false, "echo logs")

// reloadCounts reads the process-global reload counters. They only change inside executions, which run one after the
// other in a worker process, so the value read at the end of one execution is the baseline of the next.
var lastOK, lastFail float64
var haveLast bool

func reloadCounts(fresh bool) (ok, fail float64) {
	if !fresh && haveLast {
		return lastOK, lastFail
	}
	fams, _ := prometheus.DefaultGatherer.Gather()
	for _, f := range fams {
		if f.GetName() != "slogagent_reloads_total" {
			continue
		}
		for _, m := range f.Metric {
			for _, l := range m.Label {
				if l.GetName() == "status" && l.GetValue() == "success" {
					ok = m.Counter.GetValue()
				}
				if l.GetName() == "status" && l.GetValue() == "failure" {
					fail = m.Counter.GetValue()
				}
			}
		}
	}
	lastOK, lastFail, haveLast = ok, fail, true
	return ok, fail
}

func makeRun(p params) explore.RunFunc {
	return func(choose func(*vsched.ChoicePoint) int, trace bool) (explore.Verdict, *vsched.Result) {
		var verdict explore.Verdict
		logs.Reset()
		logs.Echo = *flagLogs
		w := &world{p: p, accepted: map[string]string{}}
		res := vsched.Run(vsched.Options{Choose: choose, Trace: trace, MaxSteps: 20000, StateKeys: true, EnvState: w.stateHash}, func() {
			verdict = drive(w)
		})
		if res.Status != "ok" {
			haveLast = false // the aborted execution may have moved the global reload counters
		}
		switch res.Status {
		case "ok":
		case "crash":
			key := "panic"
			if strings.Contains(res.Detail, "nil pointer") || strings.Contains(res.Detail, "invalid memory address") {
				key = "panic:nil-sink"
			}
			verdict = explore.Verdict{Violation: "panic: " + firstLine(res.Detail) + " | events: " + strings.Join(tail(w.events, 8), "; "), Key: key, Outcome: "crash"}
		case "deadlock":
			verdict = explore.Verdict{Violation: "deadlock: " + strings.ReplaceAll(res.Detail, "\n", "; "), Key: "deadlock", Outcome: "deadlock"}
		default:
			verdict = explore.Verdict{Violation: res.Status + ": " + res.Detail, Key: "engine:" + res.Status, Outcome: res.Status}
		}
		return verdict, res
	}
}

func tail(s []string, n int) []string {
	if len(s) > n {
		return s[len(s)-n:]
	}
	return s
}

func firstLine(s string) string {
	if i := strings.IndexByte(s, '\n'); i >= 0 {
		return s[:i]
	}
	return s
}

func (w *world) stateHash() uint64 {
	h := uint64(1469598103934665603)
	for _, e := range w.events {
		for i := 0; i < len(e); i++ {
			h ^= uint64(e[i])
			h *= 1099511628211
		}
		h ^= 0xff
		h *= 1099511628211
	}
	return h
}

func drive(w *world) explore.Verdict {
	p := w.p
	okBefore, failBefore := reloadCounts(false)
	d1 := &recOrc{w: w, name: "D1"}
	w.orcs = append(w.orcs, d1)
	nReloadsStarted := 0
	initiate := func() (run.CompleteReloadingFunc, error) {
		nReloadsStarted++
		if p.reloadFail {
			w.ev("initiateReload: error")
			return nil, fmt.Errorf("scripted: invalid new configuration")
		}
		w.ev("initiateReload: ok")
		return func() base.Orchestrator {
			d := &recOrc{w: w, name: fmt.Sprintf("D%d", len(w.orcs)+1)}
			d.tookOver = w.disk
			w.disk = nil
			w.orcs = append(w.orcs, d)
			w.ev("%s created, takes over %d queued records", d.name, len(d.tookOver))
			return d
		}, nil
	}
	R := run.NewReloadableOrchestrator(d1, initiate)

	const numA = base.ClientNumber(7)
	numB := base.ClientNumber(9)
	if p.reuse {
		numB = numA
	}
	accept := func(conn string, s base.BufferReceiverSink, id string) {
		s.Accept(rec(id))
		w.accepted[id] = conn
	}
	vsched.Go("connA", func() {
		s := R.NewSink("A", numA)
		accept("A", s, "a1")
		s.Tick()
		// the client disconnects: runConnection signals the connection closer (the fd becomes free) before its final
		// Flush() and deferred Close()
		w.markerA = true
		w.ev("A: socket closed, client number %d is free", numA)
		vsched.Yield("connA.socket-closed")
		if p.three {
			// a slow closer: still flushing when the number has been handed out twice more
			vsched.WaitUntil("connA.slow-close", vsched.VNow().Add(0), func() bool { return w.cReg })
		}
		accept("A", s, "a2")
		s.Tick()
		s.Close()
		w.doneA = true
	})
	vsched.Go("connB", func() {
		if p.reuse {
			vsched.WaitUntil("connB.wait-fd-free", vsched.VNow().Add(0), func() bool { return w.markerA })
		}
		s := R.NewSink("B", numB)
		accept("B", s, "b1")
		s.Tick()
		if p.three {
			w.markerB = true
			w.ev("B: socket closed, client number %d is free again", numB)
			vsched.Yield("connB.socket-closed")
			vsched.WaitUntil("connB.slow-close", vsched.VNow().Add(0), func() bool { return w.cReg })
		}
		accept("B", s, "b2")
		s.Tick()
		s.Close()
		w.doneB = true
	})
	if p.three {
		// a third connection gets the same client number again while A and B are both still closing: two collisions pending
		vsched.Go("connC", func() {
			vsched.WaitUntil("connC.wait-fd-free", vsched.VNow().Add(0), func() bool { return w.markerB })
			s := R.NewSink("C", numA)
			w.cReg = true
			accept("C", s, "c1")
			s.Tick()
			s.Close()
			w.doneC = true
		})
	} else {
		w.doneC = true
	}
	nSig := 1
	if p.twoReloads {
		nSig = 2
	}
	if p.noReload {
		nSig = 0
	}
	for i := 0; i < nSig; i++ {
		vsched.Lazy("driver.sighup")
		w.ev("SIGHUP")
		vsched.Raise(syscall.SIGHUP)
	}
	vsched.Idle()
	if !w.doneA || !w.doneB || !w.doneC {
		w.violate("connection-stuck", "a connection did not finish: A=%v B=%v C=%v", w.doneA, w.doneB, w.doneC)
	}
	R.Shutdown()

	// ---- verdict
	delivered := map[string][]string{}
	for _, d := range w.orcs {
		for _, id := range d.delivered {
			delivered[id] = append(delivered[id], d.name)
		}
	}
	ids := make([]string, 0, len(w.accepted))
	for id := range w.accepted {
		ids = append(ids, id)
	}
	sort.Strings(ids)
	out := []string{}
	for _, id := range ids {
		switch n := len(delivered[id]); {
		case n == 0:
			w.violate("record-lost", "record %s was accepted from connection %s but delivered by no pipeline set", id, w.accepted[id])
			out = append(out, id+":LOST")
		case n > 1:
			w.violate("record-duplicated", "record %s delivered %d times (%v)", id, n, delivered[id])
			out = append(out, id+":dup")
		default:
			out = append(out, id+":"+delivered[id][0])
		}
	}
	// queued chunks of the old pipelines are taken over: whatever a replaced pipeline set left on disk must have been
	// found by a later one (only the final Shutdown may leave the queue for the next start)
	lastName := w.orcs[len(w.orcs)-1].name
	for _, d := range w.orcs {
		if d.name == lastName {
			continue
		}
		for _, id := range d.delivered {
			taken := false
			for _, later := range w.orcs {
				for _, t := range later.tookOver {
					if t == id {
						taken = true
					}
				}
			}
			if !taken {
				w.violate("queued-chunks-not-taken-over", "record %s was queued by %s, which a reload replaced, and no later pipeline set took its queue over (the new set was created before the old one had written its queue)", id, d.name)
			}
		}
	}
	okAfter, failAfter := reloadCounts(true)
	if p.reloadFail {
		if d1.shutdown && len(w.orcs) == 1 {
			// only the final R.Shutdown may have shut it down; check nothing else happened
		}
		for _, s := range d1.sinks {
			if s.closedBy == "reload" {
				w.violate("failed-reload-side-effect", "a failed reload closed the sink of connection %s", s.owner)
			}
		}
		if len(w.orcs) != 1 {
			w.violate("failed-reload-side-effect", "a failed reload created a new pipeline set")
		}
		if int(failAfter-failBefore) != nReloadsStarted || okAfter != okBefore {
			w.violate("failed-reload-count", "reload counters: failure +%v success +%v after %d failed reloads", failAfter-failBefore, okAfter-okBefore, nReloadsStarted)
		}
	} else {
		if int(okAfter-okBefore) != nReloadsStarted || failAfter != failBefore {
			w.violate("reload-count", "reload counters: success +%v failure +%v after %d reloads", okAfter-okBefore, failAfter-failBefore, nReloadsStarted)
		}
		for i, d := range w.orcs {
			if i < len(w.orcs)-1 && !d.shutdown {
				w.violate("old-not-shutdown", "%s was replaced but never shut down", d.name)
			}
		}
	}
	out = append(out, fmt.Sprintf("reloads=%d orcs=%d", nReloadsStarted, len(w.orcs)))
	if line := logs.FirstBugLine(); line != "" {
		w.violate("bug-log", "agent logged: %s", line)
	}
	v := explore.Verdict{Outcome: strings.Join(out, " ")}
	if len(w.viol) > 0 {
		v.Violation = strings.Join(w.viol, " | ") + " | events: " + strings.Join(w.events, "; ")
		v.Key = w.violKey
	}
	return v
}

func scenarios() []*explore.Scenario {
	var out []*explore.Scenario
	add := func(p params, quick, thorough, minOut int) {
		out = append(out, &explore.Scenario{Name: p.name, Bound: map[string]int{"quick": quick, "thorough": thorough}, Run: makeRun(p), MinOutcomes: minOut})
	}
	add(params{name: "distinct/reload-ok"}, 2, 3, 2)
	add(params{name: "reuse/reload-ok", reuse: true}, 2, 3, 2)
	add(params{name: "distinct/reload-fails", reloadFail: true}, 1, 3, 1)
	add(params{name: "reuse/reload-fails", reuse: true, reloadFail: true}, 1, 3, 1)
	add(params{name: "distinct/two-reloads", twoReloads: true}, 1, 3, 2)
	add(params{name: "reuse3/no-reload", reuse: true, three: true, noReload: true}, 1, 2, 1)
	add(params{name: "reuse3/reload-ok", reuse: true, three: true}, 1, 2, 2)
	return out
}

func main() {
	logger.SetLogLevel(logger.InfoLevel)
	logger.SetOutput(logs)
	explore.Main(&explore.Config{
		Property:  "C17",
		Level:     "model_checking",
		Scenarios: scenarios(),
		Rule: "stateless DFS over all interleavings (within the preemption bound) of two connection threads (NewSink, Accept, Tick, socket-closed, Accept, Tick, Close), the real SIGHUP goroutine of " +
			"run.ReloadableOrchestrator and the moment(s) of SIGHUP, with recording downstream orchestrators; client numbers distinct, or reused by the second connection once the first connection's socket is closed; " +
			"reload succeeding / failing; distinct_nontrivial = distinct (record -> delivering pipeline set) outcomes",
		Assumptions: []string{
			"API level: the downstream orchestrators are recording fakes that buffer per sink and deliver on Tick/Close while alive (the real per-key sink behaves so); the Reloader level is covered by the composed harness",
			"sequentially consistent interleavings at lock/atomic/channel operations; an unsynchronised read between two scheduling points is atomic with its neighbours",
			"client number reuse is enabled only after the first connection's socket-closed point, as in tcplinelistener.runConnection",
		},
	})
}
