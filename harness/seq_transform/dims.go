package main

// Dimensions added after the white-box review of the check (DESIGN 11.6):
//   long/*     every leaf transform and every match operator on values longer than every internal capacity
//              (around 1024 bytes, around the scratch-buffer capacity defs.InputLogMaxMessageBytes, beyond 64 KiB);
//   bytes/*    all 256 byte values (plus the Unicode spaces) at the role positions of the extraction grammar (label
//              edges, class membership) and at the edges of a match argument / mapping key;
//   history/*  ONE long-lived instance (and a second one built from the same parsed configuration) fed a stream of
//              records of mixed lengths; every result compared with the reference, and every earlier live record
//              re-read after later records went through.

import (
	"fmt"
	"hash/fnv"
	"sort"
	"strconv"
	"strings"

	"github.com/relex/slog-agent/base"
	"github.com/relex/slog-agent/defs"

	"slogverif/seq"
)

func xs(n int) string {
	if n <= 0 {
		return ""
	}
	return strings.Repeat("x", n)
}

// abbrev renders a long value for identifiers: head, length, hash, tail (injective for all practical purposes and
// reproducible); short values are quoted in full.
func abbrev(f string) string {
	if len(f) <= 120 {
		return strconv.Quote(f)
	}
	h := fnv.New64a()
	h.Write([]byte(f))
	return fmt.Sprintf("%s~%dB~%016x~%s", strconv.Quote(f[:24]), len(f), h.Sum64(), strconv.Quote(f[len(f)-24:]))
}

// clipVal shortens a long value for messages.
func clipVal(f string) string {
	if len(f) <= 300 {
		return f
	}
	return f[:120] + fmt.Sprintf("<...%d bytes...>", len(f)-240) + f[len(f)-120:]
}

func sortedUnique(in []int) []int {
	sort.Ints(in)
	var out []int
	for i, v := range in {
		if v > 0 && (i == 0 || v != in[i-1]) {
			out = append(out, v)
		}
	}
	return out
}

// longLengths: lengths around every capacity / power of two a buffered implementation is likely to use.
func (e *enumerator) longLengths() []int {
	c := defs.InputLogMaxMessageBytes
	lens := []int{101, 1023, 1024, 1025, c - 3, c - 2, c - 1, c, c + 1, 2*c + 5, 65537, 70001}
	if e.ctx.Thorough() {
		lens = append(lens, 127, 128, 129, 255, 256, 257, 511, 512, 513, 2047, 2048, 2049, 8191, 8192, 8193, 32767, 32768, 32769, 65535, 65536, 1<<20-1, 1<<20, 1<<20+1)
	}
	return sortedUnique(lens)
}

// longTexts: for every length the shapes that put the interesting bytes at the far end of the value.
func longTexts(lens []int) []string {
	var out []string
	for _, n := range lens {
		out = append(out,
			xs(n-1)+"a",  // hit in the last byte
			xs(n),        // no hit at all
			"a"+xs(n-1),  // hit in the first byte only
			xs(n-2)+"ax", // hit just before the end
			xs(n-2)+"é",  // multi-byte character at the very end
		)
	}
	return out
}

// ---------------------------------------------------------------------------------------------------------------------

func (e *enumerator) longValues() {
	lens := e.longLengths()
	capB := defs.InputLogMaxMessageBytes
	texts := longTexts(lens)
	msgRecs := func(texts []string) []*Rec {
		var vals []*Rec
		for i, t := range texts {
			vals = append(vals, rec(t, []string{"T0", ""}[i%2], "X", "L"))
		}
		return dedupRecs(vals)
	}
	long := msgRecs(texts)

	// addFields: multi-part templates whose expansion crosses the scratch-buffer capacity, slices far inside long values,
	// the documented "message: task=$task $message" shape (destination = one of the sources)
	e.leafGroup("long/addFields", [][]*Step{
		one(add(Pair{"tag", Tmpl{lit("<"), vb("msg"), lit(">")}})),
		one(add(Pair{"tag", Tmpl{v("msg"), v("msg")}})),
		one(add(Pair{"msg", Tmpl{lit("task="), v("tag"), lit(" "), v("msg")}})),
		one(add(Pair{"tag", Tmpl{vs("msg", ip(1), ip(-1)), lit("|"), vs("msg", ip(-3), nil)}})),
		one(add(Pair{"tag", Tmpl{vs("msg", ip(1024), nil), lit("x")}})),
		one(add(Pair{"tag", Tmpl{lit("x"), vs("msg", nil, ip(1024))}})),
		one(add(Pair{"tag", Tmpl{vs("msg", ip(-1025), nil)}})),
		one(add(Pair{"tag", Tmpl{vb("msg")}})),
		one(add(Pair{"tag", Tmpl{lit("x="), v("msg"), lit(";y="), vb("aux"), lit(".")}}, Pair{"lvl", Tmpl{v("lvl"), vs("msg", ip(-2), nil)}})),
	}, func([]*Step) []*Rec { return long })

	// truncate: limits around 1024 and at the capacity, values around limit + suffix, multi-byte characters at the cut
	var truncs [][]*Step
	for _, m := range []int{1023, 1024, 1025, capB} {
		for _, suffix := range []string{"…", "..."} {
			truncs = append(truncs, one(&Step{K: KTrunc, Key: "msg", MaxLen: m, Suffix: suffix}))
		}
	}
	e.leafGroup("long/truncate", truncs, func(prog []*Step) []*Rec {
		m, sl := prog[0].MaxLen, len(prog[0].Suffix)
		var t []string
		for _, n := range []int{m - 1, m, m + 1, m + sl - 1, m + sl, m + sl + 1, m + sl + 2, 2*m + 7, 70001} {
			t = append(t, xs(n))
		}
		for k := 0; k <= 4; k++ {
			t = append(t, xs(m-k)+"é世😀"+xs(8), xs(m-k)+"😀世é"+xs(8))
		}
		return msgRecs(t)
	})

	// extractHead / extractTail: search ranges of 1024 bytes, of the capacity and beyond 64 KiB (the value menu is
	// generated relative to maxLen: label exactly filling / one byte beyond the range)
	for _, kind := range []Kind{KHead, KTail} {
		var cfgs [][]*Step
		for _, m := range []int{1024, capB, 70000} {
			cfgs = append(cfgs,
				one(&Step{K: kind, Key: "msg", Dest: "tag", Left: "[", Class: "*", Right: "] - ", MaxLen: m}),
				one(&Step{K: kind, Key: "msg", Dest: "tag", Left: "[", Class: `[^\]]`, Right: "] - ", MaxLen: m}),
			)
			if kind == KHead {
				cfgs = append(cfgs, one(&Step{K: kind, Key: "msg", Dest: "tag", Left: "", Class: "[a-z]", Right: "=", MaxLen: m}))
			} else {
				cfgs = append(cfgs, one(&Step{K: kind, Key: "msg", Dest: "tag", Left: ":", Class: "[0-9a-f-]", Right: "", MaxLen: m}))
			}
		}
		e.leafGroup("long/"+kind.String(), cfgs, func(prog []*Step) []*Rec {
			vals := extractValues(prog)
			// plus: a long rest behind / before a short label
			for _, n := range []int{1025, capB + 1} {
				if kind == KHead {
					vals = append(vals, rec(prog[0].Left+"abc"+prog[0].Right+xs(n), "T0", "X", "L"))
				} else {
					vals = append(vals, rec(xs(n)+prog[0].Left+"abc"+prog[0].Right, "T0", "X", "L"))
				}
			}
			return vals
		})
	}

	// unescape: escapes at both ends of long values; the record sent second is the next (different) one
	var unesc []string
	for _, n := range lens {
		unesc = append(unesc, `\n`+xs(n-4)+`\t`, xs(n-2)+`\\`, xs(n-1)+`\`, `a\\`+xs(n-3))
	}
	um, ut := &Step{K: KUnesc, Key: "msg"}, &Step{K: KUnesc, Key: "tag"}
	e.leafGroup("long/unescape", [][]*Step{{um}, {ut, um}}, func([]*Step) []*Rec { return msgRecs(unesc) })

	// replace / extract: the match lies behind the first kilobytes
	replTexts := append([]string{}, texts...)
	for _, n := range lens {
		replTexts = append(replTexts, xs(n-3)+"aab")
	}
	e.leafGroup("long/replace", [][]*Step{
		one(&Step{K: KReplace, Key: "msg", Pattern: "a+", Repl: "X"}),
		one(&Step{K: KReplace, Key: "msg", Pattern: "(x)(a)$", Repl: "$2$1"}),
		one(&Step{K: KReplace, Key: "msg", Pattern: `^(x.*a).{2,}$`, Repl: "$1 ... (cut)"}),
		one(&Step{K: KReplace, Key: "msg", Pattern: "x", Repl: "yy"}),
	}, func([]*Step) []*Rec { return msgRecs(replTexts) })
	e.leafGroup("long/extract", [][]*Step{
		one(&Step{K: KExtract, Key: "msg", Pattern: `(?P<tag>a+)$`}),
		one(&Step{K: KExtract, Key: "msg", Pattern: `^(?P<tag>x{1000})(?P<aux>.*)$`}),
		one(&Step{K: KExtract, Key: "msg", Pattern: `(?P<tag>.)(?P<aux>.)$`}),
	}, func([]*Step) []*Rec { return msgRecs(replTexts) })

	// mapValue: keys of 1000 bytes that differ in the last byte only (YAML itself limits a plain mapping key to 1024
	// characters, so longer keys cannot be configured), values around and far beyond them
	mapA, mapX := xs(999)+"a", xs(1000)
	var mapVals []*Rec
	for _, l := range []string{mapA, mapX, xs(999), xs(999) + "b", xs(999) + "A", mapA + "a", xs(1024) + "a", xs(capB) + "a"} {
		mapVals = append(mapVals, rec("m", "T", "X", l))
	}
	e.leafGroup("long/mapValue", [][]*Step{
		one(&Step{K: KMap, Key: "lvl", Mapping: [][2]string{{mapA, "LONG-A"}, {mapX, "LONG-X"}}, Default: sp("DEF")}),
	}, func([]*Step) []*Rec { return mapVals })
	keyA, keyX := xs(1024)+"a", xs(1025)

	// match operators: the deciding bytes lie at the far end of the value
	var conds []Cond
	for _, c := range []Cond{
		{"lvl", "", keyA}, {"lvl", "str-not", keyA}, {"lvl", "str-start", "xx"}, {"lvl", "str-start", keyA}, {"lvl", "str-end", "xa"},
		{"lvl", "str-end", "a"}, {"lvl", "str-end", keyA}, {"lvl", "str-contain", "xa"}, {"lvl", "str-contain", "ax"}, {"lvl", "str-contain", "xax"},
		{"lvl", "str-any", ""},
		{"lvl", "glob", "*a"}, {"lvl", "glob", "x*xa"}, {"lvl", "glob", "*[ab]"}, {"lvl", "glob", "x*"}, {"lvl", "glob", "*ax*"},
		{"lvl", "regex", "a$"}, {"lvl", "regex", "^x+a$"}, {"lvl", "regex", "xa"}, {"lvl", "regex", "^.{1000}.{25}$"}, {"lvl", "regex", "^[^a]*$"},
		{"lvl", "regex", "a"}, {"lvl", "regex", "é$"},
	} {
		conds = append(conds, c)
	}
	for _, n := range []int{100, 1023, 1024, 1025, capB, 65536} {
		conds = append(conds, Cond{"lvl", "len-gt", strconv.Itoa(n)}, Cond{"lvl", "len-lt", strconv.Itoa(n)})
	}
	var matchVals []*Rec
	for _, t := range append(append([]string{}, texts...), keyA, keyX, "xx") {
		matchVals = append(matchVals, rec("m", "T0", "X", t))
	}
	matchVals = dedupRecs(matchVals)
	var mconfigs [][]*Step
	for _, c := range conds {
		mconfigs = append(mconfigs,
			one(&Step{K: KIf, M: Match{c}, Then: one(hit())}),
			one(&Step{K: KDrop, M: Match{c}, Pct: 100, Label: "matched"}),
		)
	}
	e.leafGroup("long/match", mconfigs, func([]*Step) []*Rec { return matchVals })
}

// ---------------------------------------------------------------------------------------------------------------------
// Byte sweeps

// unicodeSpaces: characters that Unicode calls white space but that are not "control characters and spaces" in the
// documented byte sense (every byte of their encoding is > 0x20), plus the byte-order mark.
var unicodeSpaces = []string{"\u0085", "\u00a0", "\u1680", "\u2000", "\u2003", "\u2009", "\u200a", "\u2028", "\u2029", "\u202f", "\u205f", "\u3000", "\ufeff"}

func (e *enumerator) byteSweeps() {
	// every byte value (and every Unicode space) at the edges of the label: "always trimmed" = bytes <= 0x20 go, nothing else
	var edges []string
	for b := 0; b < 256; b++ {
		s := string([]byte{byte(b)})
		edges = append(edges, s+"ab", "ab"+s, s+"ab"+s, "a"+s+"b", s)
	}
	for _, u := range unicodeSpaces {
		edges = append(edges, u+"ab", "ab"+u, u+"ab"+u, u)
	}
	for _, kind := range []Kind{KHead, KTail} {
		cfgs := [][]*Step{
			one(&Step{K: kind, Key: "msg", Dest: "tag", Left: "[", Class: "*", Right: "] - ", MaxLen: 100}),
			one(&Step{K: kind, Key: "msg", Dest: "tag", Left: "<", Class: `[^\]]`, Right: ">", MaxLen: 100}),
		}
		if kind == KHead {
			cfgs = append(cfgs, one(&Step{K: kind, Key: "msg", Dest: "tag", Left: "", Class: "*", Right: ": ", MaxLen: 100}))
		} else {
			cfgs = append(cfgs, one(&Step{K: kind, Key: "msg", Dest: "tag", Left: " :", Class: "*", Right: "", MaxLen: 100}))
		}
		e.leafGroup("bytes/label-edge/"+kind.String(), cfgs, func(prog []*Step) []*Rec {
			s := prog[0]
			var vals []*Rec
			for _, l := range edges {
				if kind == KHead {
					vals = append(vals, rec(s.Left+l+s.Right+"rest", "T0", "X", "L"))
				} else {
					vals = append(vals, rec("rest"+s.Left+l+s.Right, "T0", "X", "L"))
				}
			}
			return dedupRecs(vals)
		})
	}

	// every byte value against every class of the menu, with a far boundary (all label bytes must belong to the class) and
	// without one (the label is the maximal run of class bytes)
	base, extra := e.extractClasses()
	classes := append(append([]string{}, base[1:]...), extra...)
	for _, kind := range []Kind{KHead, KTail} {
		var cfgs [][]*Step
		for _, c := range classes {
			if kind == KHead {
				cfgs = append(cfgs,
					one(&Step{K: kind, Key: "msg", Dest: "tag", Left: "<", Class: c, Right: ">", MaxLen: 100}),
					one(&Step{K: kind, Key: "msg", Dest: "tag", Left: "<", Class: c, Right: "", MaxLen: 100}))
			} else {
				cfgs = append(cfgs,
					one(&Step{K: kind, Key: "msg", Dest: "tag", Left: "<", Class: c, Right: ">", MaxLen: 100}),
					one(&Step{K: kind, Key: "msg", Dest: "tag", Left: "", Class: c, Right: ">", MaxLen: 100}))
			}
		}
		e.leafGroup("bytes/class-member/"+kind.String(), cfgs, func(prog []*Step) []*Rec {
			s := prog[0]
			m := filler(s.Class, 1)
			var vals []*Rec
			for b := 0; b < 256; b++ {
				c := string([]byte{byte(b)})
				var t string
				switch {
				case s.Left != "" && s.Right != "":
					t = s.Left + m + c + m + s.Right
					if kind == KHead {
						t += "rest"
					} else {
						t = "rest" + t
					}
				case kind == KHead: // no far boundary
					t = s.Left + m + m + c + m + " rest"
				default:
					t = "rest " + m + c + m + m + s.Right
				}
				vals = append(vals, rec(t, "T0", "X", "L"))
			}
			return vals
		})
	}

	// every byte value at the edges of a match argument / mapping key: substituted for its first and for its last byte,
	// appended, prepended (one byte differs = must not be "equal", "starting with", ...)
	arg := "ab"
	var near []string
	for b := 0; b < 256; b++ {
		c := string([]byte{byte(b)})
		near = append(near, c+arg[1:], arg[:1]+c, arg+c, c+arg, arg[:1]+c+arg[1:])
	}
	var nearRecs, nearASCII []*Rec
	for _, t := range near {
		r := rec("m", "T0", "X", t)
		nearRecs = append(nearRecs, r)
		ascii := true
		for i := 0; i < len(t); i++ {
			if t[i] >= 0x80 {
				ascii = false
			}
		}
		if ascii {
			nearASCII = append(nearASCII, r)
		}
	}
	nearRecs, nearASCII = dedupRecs(nearRecs), dedupRecs(nearASCII)
	var scfgs, pcfgs [][]*Step
	for _, op := range []string{"", "str-not", "str-start", "str-end", "str-contain"} {
		scfgs = append(scfgs, one(&Step{K: KIf, M: Match{{"lvl", op, arg}}, Then: one(hit())}))
	}
	scfgs = append(scfgs, one(&Step{K: KMap, Key: "lvl", Mapping: [][2]string{{arg, "MAPPED"}}, Default: sp("DEF")}))
	e.leafGroup("bytes/match-arg-edge", scfgs, func([]*Step) []*Rec { return nearRecs })
	// pattern operators: values restricted to ASCII (the documentation of the pattern languages does not define the
	// treatment of bytes that are not valid UTF-8)
	for _, c := range []Cond{{"lvl", "glob", "ab"}, {"lvl", "glob", "a*b"}, {"lvl", "glob", "[a]b"}, {"lvl", "regex", "^ab$"}, {"lvl", "regex", "ab"}} {
		pcfgs = append(pcfgs, one(&Step{K: KIf, M: Match{c}, Then: one(hit())}))
	}
	e.leafGroup("bytes/match-pattern-edge", pcfgs, func([]*Step) []*Rec { return nearASCII })
}

// ---------------------------------------------------------------------------------------------------------------------
// Histories through long-lived instances

// historyStream: records of mixed lengths (short, longer than 1024, longer than the scratch capacity) and contents
// (two different values with escapes per field, boundaries, keys) in an order in which lengths go up and down.
func historyStream() []*Rec {
	capB := defs.InputLogMaxMessageBytes
	msgs := []string{
		`[cls ] - key=12 a\nb /vh:dead-beef`,
		`[Other] - k=7 x\ty\\z /w:0123-abcd`,
		"abcdefghijklmnop",
		`[x] - ` + xs(1100) + `\n q=1 /p:` + strings.Repeat("0123456789abcdef-", 70),
		"k=1",
		`[yy ] - zq=5 \t` + xs(capB+904) + `/tail:beef-` + strings.Repeat("0a", 30),
		"",
		`[z] - short\\ /u:77`,
		`name=99 [cls ] - KEY=12 A\nB /vh:DEAD-beef`,
		"ab",
		`[q] - \r` + xs(1020) + `/r:ff`,
	}
	tags := []string{`T0\tT0T0`, "", `U1\nU1`, `V\t` + xs(1500) + `\\`, "W"}
	lvls := []string{"a", "a", "b"}
	var out []*Rec
	for i := 0; i < 33; i++ {
		out = append(out, rec(msgs[i%len(msgs)], tags[i%len(tags)], "X", lvls[i%len(lvls)]))
	}
	return out
}

func (e *enumerator) histories() {
	ctx := e.ctx
	stream := historyStream()
	leaves := reducedLeaves()
	// leaves the reduced menu has only one shape of
	leaves = append(leaves,
		add(Pair{"tag", Tmpl{v("tag"), lit("+"), v("msg")}}),
		add(Pair{"msg", Tmpl{lit("task="), v("tag"), lit(" "), v("msg")}}),
		&Step{K: KHead, Key: "msg", Dest: "msg", Left: "[", Class: "*", Right: "] - ", MaxLen: 100},
		&Step{K: KTail, Key: "msg", Dest: "msg", Left: "/", Class: "*", Right: "", MaxLen: 100},
		&Step{K: KTrunc, Key: "msg", MaxLen: 1024, Suffix: "…"},
		&Step{K: KReplace, Key: "msg", Pattern: `\\.`, Repl: "<$0>"},
		&Step{K: KDel, Keys: []string{"msg", "tag"}},
	)
	ctx.Group("history")
	emitHist := func(id, scope string, prog []*Step) {
		if !ctx.Mine() {
			ctx.Skip()
			return
		}
		ctx.Case(id, true, RenderYAML(prog)+fmt.Sprintf("stream of %d records through two instances built from one parsed configuration", len(stream)), func() (string, string) {
			return checkHistory(scope, prog, stream)
		})
	}
	condA := Match{{"lvl", "", "a"}}
	for _, a := range leaves {
		if ctx.Stop() {
			return
		}
		scope := "history:" + kindName(a)
		emitHist("history/"+compactSteps([]*Step{a}), scope, []*Step{a})
		under := []*Step{{K: KIf, M: condA, Then: one(a)}}
		emitHist("history/"+compactSteps(under), scope, under)
	}
	for _, a := range leaves {
		for _, b := range leaves {
			if ctx.Stop() {
				return
			}
			prog := []*Step{a, b}
			emitHist("history/"+compactSteps(prog), "history:"+kindName(a)+"+"+kindName(b), prog)
		}
	}
}

// kindName names a leaf in key scopes; extractions into their own source field are kept apart (see Assumptions).
func kindName(s *Step) string {
	if (s.K == KHead || s.K == KTail) && s.Key == s.Dest {
		return s.K.String() + "[key=destKey]"
	}
	return s.K.String()
}

type histInst struct {
	ri       *realInstance
	counters map[string]counter
	live     []*base.LogRecord
	snaps    []*Rec
	inputs   []*Rec
}

// checkHistory feeds the stream to two instances built from ONE parsed configuration (as the agent builds one chain per
// connection and per pipeline from its single configuration object), alternating between them; instance 0 reads the
// stream forwards, instance 1 backwards. Every result is compared with the reference (which has no memory besides the
// label counters); all live records of both instances are re-read against their snapshots after every record (records
// wait in batches behind the transforms, see real.go).
func checkHistory(scope string, prog []*Step, stream []*Rec) (string, string) {
	yamlText := RenderYAML(prog)
	cfgs, err := loadReal(yamlText)
	if err != nil {
		return "harness:generated-program-rejected", fmt.Sprintf("the configuration path rejected a program generated as valid: %v\n%s", err, yamlText)
	}
	labels := dropLabels(prog)
	inst := []*histInst{{ri: newRealInstance(cfgs), counters: map[string]counter{}}, {ri: newRealInstance(cfgs), counters: map[string]counter{}}}
	reread := func(after string) (string, string) {
		for which, h := range inst {
			for k, liveRec := range h.live {
				for i, f := range liveRec.Fields {
					if i < len(h.snaps[k].F) && f != h.snaps[k].F[i] {
						return "earlier-record-changed-by-later-record:" + scope, fmt.Sprintf("field %s of record #%d of instance %d was %q after its own transformation and reads %q %s\nthat record: %s\n%s",
							fieldNames[i], k, which, clipVal(h.snaps[k].F[i]), clipVal(f), after, describeRec(h.inputs[k]), yamlText)
					}
				}
			}
		}
		return "", ""
	}
	n := len(stream)
	for step := 0; step < 2*n; step++ {
		which := step % 2
		h := inst[which]
		idx := step / 2
		if which == 1 {
			idx = n - 1 - idx
		}
		in := stream[idx]
		var real *Rec
		var dropped bool
		if site, detail := seq.Catch(func() { real, dropped = h.ri.run(in) }); site != "" {
			return "panic:" + site, fmt.Sprintf("%s\nrecord #%d of instance %d: %s\n%s", detail, len(h.live), which, describeRec(in), yamlText)
		}
		h.live, h.snaps, h.inputs = append(h.live, h.ri.lastRecord), append(h.snaps, real), append(h.inputs, in)
		outs, alts := allOutcomes(prog, in, h.counters)
		ok := false
		firstAspect, firstDetail := "", ""
		for i, o := range outs {
			a, d := diffOutcome(labels, real, dropped, h.ri, o)
			if a == "" {
				ok = true
				h.counters = o.counters
				break
			}
			if i == 0 {
				firstAspect, firstDetail = a, d
			}
		}
		if !ok {
			key := "mismatch:" + scope + ":" + firstAspect
			if k, _ := checkProgram(scope, prog, in, nil); k == "" {
				key = "later-record:" + key // right on a fresh instance: an effect of the records before it
			}
			return key, fmt.Sprintf("%s (open points %v)\nrecord #%d of instance %d\ninput  %s\nreal   %s %s\nref    %s %s\n%s", clipVal(firstDetail), alts, len(h.live)-1, which,
				describeRec(in), describeRec(real), passDrop(dropped), describeRec(outs[0].rec), passDrop(outs[0].dropped), yamlText)
		}
		if k, m := reread(fmt.Sprintf("after record #%d of instance %d (%s) went through", len(h.live)-1, which, describeRec(in))); k != "" {
			return k, m
		}
	}
	return "", ""
}
