package main

// Reference interpreter for the transform language (C15), written from the documentation:
// testdata/config_sample.yml comments, the package comments of transform/*, base/bmatch, and DESIGN.md appendix A.4.
// One function per transform and per match operator. It shares no code with the repository.
//
// Where the documentation leaves a result open, the interpreter asks env.alt(name): the oracle accepts the real
// result if it equals the reference result for ANY combination of answers (see allOutcomes).

import (
	"regexp"
	"strings"
	"unicode/utf8"
)

// Rec is the reference view of a log record.
type Rec struct {
	F         []string
	Unescaped bool
	RawLength int
}

func (r *Rec) clone() *Rec {
	return &Rec{F: append([]string(nil), r.F...), Unescaped: r.Unescaped, RawLength: r.RawLength}
}

type counter struct{ count, length int64 }

// refEnv carries the label counters and the answers to the open points of the documentation.
type refEnv struct {
	counters  map[string]*counter
	decisions []bool // answers so far on this run
	next      int    // index of the next open point
	altNames  map[string]bool
}

func (e *refEnv) alt(name string) bool {
	if e.altNames == nil {
		e.altNames = map[string]bool{}
	}
	e.altNames[name] = true
	if e.next == len(e.decisions) {
		e.decisions = append(e.decisions, false)
	}
	d := e.decisions[e.next]
	e.next++
	return d
}

func (e *refEnv) count(label string, length int) {
	c := e.counters[label]
	if c == nil {
		c = &counter{}
		e.counters[label] = c
	}
	c.count++
	c.length += int64(length)
}

const (
	refPASS = false
	refDROP = true
)

// refRun: "first DROP wins, otherwise in-place edits in order".
func refRun(steps []*Step, r *Rec, env *refEnv) bool {
	for _, s := range steps {
		if refStep(s, r, env) == refDROP {
			return refDROP
		}
	}
	return refPASS
}

func refStep(s *Step, r *Rec, env *refEnv) bool {
	switch s.K {
	case KAdd:
		refAddFields(s, r)
	case KDel:
		refDelFields(s, r)
	case KMap:
		refMapValue(s, r)
	case KIf:
		return refIf(s, r, env)
	case KSwitch:
		return refSwitch(s, r, env)
	case KBlock:
		return refBlock(s, r, env)
	case KDrop:
		return refDrop(s, r, env)
	case KHead:
		refExtractHead(s, r, env)
	case KTail:
		refExtractTail(s, r, env)
	case KTrunc:
		refTruncate(s, r)
	case KUnesc:
		refUnescape(s, r)
	case KReplace:
		refReplace(s, r, env)
	case KExtract:
		refExtract(s, r, env)
	default:
		panic("reference: unknown step kind")
	}
	return refPASS
}

// ---------------------------------------------------------------------------------------------------------------------
// addFields: "Add or update one or more fields"; "$var or ${var}"; "substring (no overflow), e.g. ${task[-3:-1]}
// result in "78" for task=56789". A template that expands to nothing leaves the destination as it was (an empty field
// and an undefined field are the same thing, so there is nothing to add).

func refSlice(v string, a, b *int) string {
	n := len(v)
	lo, hi := 0, n
	if a != nil {
		lo = *a
		if lo < 0 {
			lo += n
			if lo < 0 {
				lo = 0
			}
		}
		if lo > n {
			lo = n
		}
	}
	if b != nil {
		hi = *b
		if hi < 0 {
			hi += n
			if hi < 0 {
				hi = 0
			}
		}
		if hi > n {
			hi = n
		}
	}
	if lo >= hi {
		return ""
	}
	return v[lo:hi]
}

func refExpand(t Tmpl, r *Rec) string {
	out := ""
	for _, p := range t {
		if p.Var == "" {
			out += p.Lit
			continue
		}
		v := r.F[fieldIndex(p.Var)]
		if p.HasSlice {
			v = refSlice(v, p.A, p.B)
		}
		out += v
	}
	return out
}

func refAddFields(s *Step, r *Rec) {
	for _, p := range s.Pairs {
		v := refExpand(p.T, r)
		if v != "" {
			r.F[fieldIndex(p.Dst)] = v
		}
	}
}

// delFields: "Clear specified fields (set to empty string)".
func refDelFields(s *Step, r *Rec) {
	for _, k := range s.Keys {
		r.F[fieldIndex(k)] = ""
	}
}

// mapValue: "one-to-one mapping on a field value"; an empty (= undefined) field stays empty; otherwise the mapped value,
// or the default when the value is not listed (no default configured = empty default).
func refMapValue(s *Step, r *Rec) {
	i := fieldIndex(s.Key)
	v := r.F[i]
	if v == "" {
		return
	}
	for _, kv := range s.Mapping {
		if kv[0] == v {
			r.F[i] = kv[1]
			return
		}
	}
	if s.Default != nil {
		r.F[i] = *s.Default
	} else {
		r.F[i] = ""
	}
}

// if: "Conditional block (optional execution - there is no else)"; "match: AND of all".
func refIf(s *Step, r *Rec, env *refEnv) bool {
	if refMatchAll(s.M, r) {
		return refRun(s.Then, r, env)
	}
	return refPASS
}

// switch: "Switch-Case branches, no fallthrough; continue processing if not matched in any cases".
func refSwitch(s *Step, r *Rec, env *refEnv) bool {
	for _, c := range s.Cases {
		if refMatchAll(c.M, r) {
			return refRun(c.Then, r, env)
		}
	}
	return refPASS
}

// block: "groups child transform steps".
func refBlock(s *Step, r *Rec, env *refEnv) bool {
	return refRun(s.Steps, r, env)
}

// drop at 100 %: "Drop logs on conditions (AND only)", counted under metricLabel. Sampled rates are not interpreted
// here: their decisions are not prescribed record by record (see the sampling group in main.go).
func refDrop(s *Step, r *Rec, env *refEnv) bool {
	if s.Pct != 100 {
		panic("reference: sampled drop is checked by the sampling oracle only")
	}
	if !refMatchAll(s.M, r) {
		return refPASS
	}
	env.count(s.Label, r.RawLength)
	return refDROP
}

// ---------------------------------------------------------------------------------------------------------------------
// extractHead / extractTail: "pattern: optional prefix + { [] or * to match target } + optional suffix";
// "maxLen: max search length in bytes"; the label is "always trimmed"; on success the source loses the label and both
// boundaries and the destination receives the label; on failure nothing changes.

// refClassUnescape removes the documented escapes of the pattern language from the inside of a bracket expression
// ("note brackets and asterisks need to be escaped": \[ \] \* stand for the bare character). No other escape is
// generated inside a class (the documentation names none).
func refClassUnescape(body string) string {
	out := make([]byte, 0, len(body))
	for i := 0; i < len(body); i++ {
		if body[i] == '\\' && i+1 < len(body) && (body[i+1] == '[' || body[i+1] == ']' || body[i+1] == '*') {
			i++
		}
		out = append(out, body[i])
	}
	return string(out)
}

// refClassTables memoises the member table of a class (a pure function of the class text).
var refClassTables = map[string]*[256]bool{}

func refClassHas(class string, c byte) bool {
	if class == "*" {
		return true
	}
	t := refClassTables[class]
	if t == nil {
		t = &[256]bool{}
		for b := 0; b < 256; b++ {
			t[b] = refClassHasSlow(class, byte(b))
		}
		refClassTables[class] = t
	}
	return t[c]
}

// refClassHasSlow interprets a bracket expression: escapes removed first, optional leading ^ (negation), ranges x-y,
// a hyphen first or last stands for itself.
func refClassHasSlow(class string, c byte) bool {
	body := refClassUnescape(class[1 : len(class)-1])
	neg := false
	if strings.HasPrefix(body, "^") {
		neg = true
		body = body[1:]
	}
	in := false
	for i := 0; i < len(body); i++ {
		if i+2 < len(body) && body[i+1] == '-' {
			if body[i] <= c && c <= body[i+2] {
				in = true
			}
			i += 2
			continue
		}
		if body[i] == c {
			in = true
		}
	}
	return in != neg
}

func refAllInClass(class, s string) bool {
	for i := 0; i < len(s); i++ {
		if !refClassHas(class, s[i]) {
			return false
		}
	}
	return true
}

func refTrimBlanks(s string) string {
	for len(s) > 0 && s[0] <= 0x20 {
		s = s[1:]
	}
	for len(s) > 0 && s[len(s)-1] <= 0x20 {
		s = s[:len(s)-1]
	}
	return s
}

// refFinishExtract applies the outcome (raw label between the boundaries, remaining text).
func refFinishExtract(s *Step, r *Rec, env *refEnv, raw, rest string) {
	if raw == "" && s.Class != "*" {
		// Open point: is an empty target acceptable for a bracket class? (the documentation does not say whether
		// [a-z] means "zero or more" or "one or more" when a far boundary is present)
		if env.alt("empty-label-with-class") {
			return
		}
	}
	label := refTrimBlanks(raw)
	if label == "" && raw != "" {
		// Open point (A.4): a target made only of blanks gives an empty label and the source is still cut - or nothing
		// changes. Never a panic.
		if env.alt("blank-label") {
			return
		}
	}
	r.F[fieldIndex(s.Key)] = rest
	r.F[fieldIndex(s.Dest)] = label
}

func refExtractHead(s *Step, r *Rec, env *refEnv) {
	v := r.F[fieldIndex(s.Key)]
	if v == "" {
		return // empty = undefined: nothing to extract from
	}
	t := v
	if s.Left != "" {
		if !strings.HasPrefix(t, s.Left) {
			return
		}
		t = t[len(s.Left):]
	}
	if s.Right != "" {
		window := t
		if len(window) > s.MaxLen {
			window = window[:s.MaxLen]
		}
		i := strings.Index(window, s.Right) // first occurrence, entirely inside the window
		if i < 0 {
			return
		}
		raw := t[:i]
		if !refAllInClass(s.Class, raw) {
			return
		}
		refFinishExtract(s, r, env, raw, t[i+len(s.Right):])
		return
	}
	// no far boundary: the target is the maximal run of class bytes (maxLen not applied; documentation silent)
	n := 0
	for n < len(t) && refClassHas(s.Class, t[n]) {
		n++
	}
	if n == 0 {
		return
	}
	refFinishExtract(s, r, env, t[:n], t[n:])
}

func refExtractTail(s *Step, r *Rec, env *refEnv) {
	v := r.F[fieldIndex(s.Key)]
	if v == "" {
		return
	}
	t := v
	if s.Right != "" {
		if !strings.HasSuffix(t, s.Right) {
			return
		}
		t = t[:len(t)-len(s.Right)]
	}
	if s.Left != "" {
		off := 0
		if len(t) > s.MaxLen {
			off = len(t) - s.MaxLen
		}
		i := strings.LastIndex(t[off:], s.Left) // last occurrence, entirely inside the window
		if i < 0 {
			return
		}
		i += off
		raw := t[i+len(s.Left):]
		if !refAllInClass(s.Class, raw) {
			return
		}
		refFinishExtract(s, r, env, raw, t[:i])
		return
	}
	n := len(t)
	for n > 0 && refClassHas(s.Class, t[n-1]) {
		n--
	}
	if n == len(t) {
		return
	}
	refFinishExtract(s, r, env, t[n:], t[:n])
}

// ---------------------------------------------------------------------------------------------------------------------
// truncate: "Truncate oversized fields by bytes"; "maxLen: max length to preserve (before appending suffix)"; the unit
// test pins "no change since len = max + suffix"; a rune cut in the middle is removed entirely.
// Only called for valid UTF-8 values (others are checked by refTruncateLoose).

func refTruncateValue(v string, maxLen int, suffix string) string {
	if len(v) <= maxLen+len(suffix) {
		return v
	}
	cut := maxLen
	for cut > 0 && !utf8.RuneStart(v[cut]) {
		cut--
	}
	return v[:cut] + suffix
}

func refTruncate(s *Step, r *Rec) {
	i := fieldIndex(s.Key)
	r.F[i] = refTruncateValue(r.F[i], s.MaxLen, s.Suffix)
}

// ---------------------------------------------------------------------------------------------------------------------
// unescape: `including chars: "\b", "\f", "\n", "\r", "\t" (as in Java)`; "Skipped if a log is marked by input as
// unescaped"; A.4: once per record; `\\` gives one backslash, any other `\x` stays two bytes, a trailing lone backslash
// stays.

func refUnescapeValue(v string) string {
	out := make([]byte, 0, len(v))
	for i := 0; i < len(v); i++ {
		c := v[i]
		if c != '\\' || i+1 == len(v) {
			out = append(out, c)
			continue
		}
		i++
		switch v[i] {
		case 'b':
			out = append(out, '\b')
		case 'f':
			out = append(out, '\f')
		case 'n':
			out = append(out, '\n')
		case 'r':
			out = append(out, '\r')
		case 't':
			out = append(out, '\t')
		case '\\':
			out = append(out, '\\')
		default:
			out = append(out, '\\', v[i])
		}
	}
	return string(out)
}

func refUnescape(s *Step, r *Rec) {
	if r.Unescaped {
		return
	}
	r.Unescaped = true
	i := fieldIndex(s.Key)
	r.F[i] = refUnescapeValue(r.F[i])
}

// ---------------------------------------------------------------------------------------------------------------------
// replace: "replacements by regular expression on specified field. Both named and unnamed captures are supported in
// replacement, as in Regexp.Expand". Go regexp is the documented semantics, so the reference uses the regexp package
// (match enumeration + Expand, not ReplaceAllString).

func refReplaceValue(v, pattern, repl string) string {
	re := regexp.MustCompile(pattern)
	var out []byte
	last := 0
	for _, m := range re.FindAllStringSubmatchIndex(v, -1) {
		out = append(out, v[last:m[0]]...)
		out = re.ExpandString(out, repl, v, m)
		last = m[1]
	}
	out = append(out, v[last:]...)
	return string(out)
}

func refReplace(s *Step, r *Rec, env *refEnv) {
	i := fieldIndex(s.Key)
	v := r.F[i]
	if v == "" {
		// Open point: an empty field is an undefined field; the documentation does not say whether a pattern matching
		// the empty string applies to it.
		if env.alt("replace-on-empty") {
			return
		}
	}
	r.F[i] = refReplaceValue(v, s.Pattern, s.Repl)
}

// extract: "parses specified field with regular expression and updates fields with named captures (overriding any
// existing value). Only the named captures from the first match are checked; Unnamed captures and subsequent matches
// are ignored."
func refExtract(s *Step, r *Rec, env *refEnv) {
	v := r.F[fieldIndex(s.Key)]
	re := regexp.MustCompile(s.Pattern)
	m := re.FindStringSubmatchIndex(v)
	if m == nil {
		return
	}
	type upd struct {
		idx int
		val string
	}
	var updates []upd
	for gi, name := range re.SubexpNames() {
		if name == "" {
			continue
		}
		lo, hi := m[2*gi], m[2*gi+1]
		if lo < 0 {
			// Open point: a named group that did not take part in the match: field left alone, or overridden by nothing.
			if env.alt("extract-unmatched-group") {
				updates = append(updates, upd{fieldIndex(name), ""})
			}
			continue
		}
		updates = append(updates, upd{fieldIndex(name), v[lo:hi]})
	}
	for _, u := range updates {
		r.F[u.idx] = u.val
	}
}

// ---------------------------------------------------------------------------------------------------------------------
// Match operators ("Match Operators (Examples)" in config_sample.yml).

func refMatchAll(m Match, r *Rec) bool {
	for _, c := range m {
		if !refMatchOne(c, r.F[fieldIndex(c.Field)]) {
			return false
		}
	}
	return true
}

func refMatchOne(c Cond, v string) bool {
	switch c.Op {
	case "", "str", "str-eq":
		return matchEq(v, c.Arg)
	case "str-not":
		return matchNot(v, c.Arg)
	case "str-start":
		return matchStart(v, c.Arg)
	case "str-end":
		return matchEnd(v, c.Arg)
	case "str-contain":
		return matchContain(v, c.Arg)
	case "str-any":
		return matchAny(v)
	case "len-gt":
		return matchLenGt(v, atoi(c.Arg))
	case "len-lt":
		return matchLenLt(v, atoi(c.Arg))
	case "glob":
		return matchGlob(v, c.Arg)
	case "regex":
		return matchRegex(v, c.Arg)
	}
	panic("reference: unknown match operator " + c.Op)
}

func atoi(s string) int {
	neg := false
	if strings.HasPrefix(s, "-") {
		neg = true
		s = s[1:]
	}
	n := 0
	for i := 0; i < len(s); i++ {
		n = n*10 + int(s[i]-'0')
	}
	if neg {
		return -n
	}
	return n
}

// "!!str-eq or !!str is the default, equals to"
func matchEq(v, arg string) bool { return v == arg }

// "!!str-not means not equals to"
func matchNot(v, arg string) bool { return v != arg }

// "!!str-start matches the beginning of value"
func matchStart(v, arg string) bool { return len(v) >= len(arg) && v[:len(arg)] == arg }

// "!!str-end matches the end of value"
func matchEnd(v, arg string) bool { return len(v) >= len(arg) && v[len(v)-len(arg):] == arg }

// "!!str-contain tests whether value contains something"
func matchContain(v, arg string) bool {
	for i := 0; i+len(arg) <= len(v); i++ {
		if v[i:i+len(arg)] == arg {
			return true
		}
	}
	return false
}

// "!!str-any is the same as !!len-gt 0"
func matchAny(v string) bool { return len(v) > 0 }

// "!!len-gt checks the length is greater than N"
func matchLenGt(v string, n int) bool { return len(v) > n }

// "!!len-lt checks the length is smaller than N"
func matchLenLt(v string, n int) bool { return len(v) < n }

// "!!regex uses Go's regular expression" (unanchored search).
func matchRegex(v, arg string) bool { return regexp.MustCompile(arg).MatchString(v) }

// "!!glob uses https://github.com/gobwas/glob pattern, note there are ** and *": no separators are configured, so *
// and ** both match any sequence; ? any single character; [..] / [!..] classes with ranges; {a,b} alternatives;
// backslash escapes. Whole-value match. Small backtracking matcher over runes.
func matchGlob(v, pattern string) bool {
	return globMatch([]rune(pattern), []rune(v))
}

func globMatch(p, v []rune) bool {
	if len(p) == 0 {
		return len(v) == 0
	}
	switch p[0] {
	case '*':
		rest := p[1:]
		for len(rest) > 0 && rest[0] == '*' {
			rest = rest[1:]
		}
		for k := 0; k <= len(v); k++ {
			if globMatch(rest, v[k:]) {
				return true
			}
		}
		return false
	case '?':
		return len(v) > 0 && globMatch(p[1:], v[1:])
	case '[':
		end := 1
		for end < len(p) && p[end] != ']' {
			if p[end] == '\\' {
				end++
			}
			end++
		}
		if len(v) == 0 {
			return false
		}
		body := p[1:end]
		neg := false
		if len(body) > 0 && body[0] == '!' {
			neg = true
			body = body[1:]
		}
		in := false
		for i := 0; i < len(body); i++ {
			lo := body[i]
			if lo == '\\' && i+1 < len(body) {
				i++
				lo = body[i]
			}
			if i+2 < len(body) && body[i+1] == '-' {
				hi := body[i+2]
				if lo <= v[0] && v[0] <= hi {
					in = true
				}
				i += 2
				continue
			}
			if lo == v[0] {
				in = true
			}
		}
		return in != neg && globMatch(p[end+1:], v[1:])
	case '{':
		// split the alternatives at top-level commas up to the matching brace
		depth := 0
		var alts [][]rune
		start := 1
		end := -1
		for i := 0; i < len(p); i++ {
			switch p[i] {
			case '\\':
				i++
			case '{':
				depth++
			case '}':
				depth--
				if depth == 0 {
					alts = append(alts, p[start:i])
					end = i
				}
			case ',':
				if depth == 1 {
					alts = append(alts, p[start:i])
					start = i + 1
				}
			}
			if end >= 0 {
				break
			}
		}
		rest := p[end+1:]
		for _, a := range alts {
			cand := append(append([]rune{}, a...), rest...)
			if globMatch(cand, v) {
				return true
			}
		}
		return false
	case '\\':
		if len(p) > 1 {
			return len(v) > 0 && v[0] == p[1] && globMatch(p[2:], v[1:])
		}
	}
	return len(v) > 0 && v[0] == p[0] && globMatch(p[1:], v[1:])
}
