package main

// Classification of !!glob mismatches. The verdict (real != reference) never depends on this file; it only decides the
// violation KEY, so that the four recorded defects of the third-party matcher (gobwas/glob v0.2.3, the documented
// semantics of !!glob) stay apart from every defect of the product. A mismatch is attributed to the library only if
//   (1) the library itself, called directly with the same pattern (no separators, as documented) and the same value,
//       gives the same wrong answer as the product, and
//   (2) the concrete, minimal symptom of one recorded library defect is demonstrated on this very (pattern, value) by a
//       repair experiment (the wrong answer disappears when exactly the trigger of that defect is removed).
// Everything else gets a key of its own: "product-differs-from-gobwas" when the product does not even agree with its
// library, "gobwas-same-answer:unclassified" for a library misbehaviour that is none of the recorded ones.

import (
	"strings"
	"unicode/utf8"

	"github.com/gobwas/glob"
)

const (
	globKeyProduct    = "product-differs-from-gobwas"
	globKeyHistory    = "history-dependent"
	globKeyQByte      = "gobwas-same-answer:question-mark-counts-bytes-of-a-multibyte-value"
	globKeyQEmpty     = "gobwas-same-answer:single-question-mark-accepts-the-empty-value"
	globKeyOverlap    = "gobwas-same-answer:literal-star-literal-accepts-a-value-shorter-than-prefix-plus-suffix"
	globKeyBraceStar  = "gobwas-same-answer:brace-group-with-star-differs-from-the-union-of-its-alternatives"
	globKeyUnclassifi = "gobwas-same-answer:unclassified"
)

// gobwasDirect asks the library itself; ok=false if it cannot compile the pattern.
func gobwasDirect(pattern, value string) (match, ok bool) {
	defer func() {
		if recover() != nil {
			match, ok = false, false
		}
	}()
	g, err := glob.Compile(pattern)
	if err != nil {
		return false, false
	}
	return g.Match(value), true
}

func globPatternOf(prog []*Step) string {
	var pattern string
	walk(prog, func(s *Step) {
		for _, c := range s.M {
			if c.Op == "glob" {
				pattern = c.Arg
			}
		}
		for _, cs := range s.Cases {
			for _, c := range cs.M {
				if c.Op == "glob" {
					pattern = c.Arg
				}
			}
		}
	})
	return pattern
}

// globRekey appends the class to the generic key "mismatch:match/glob".
func globRekey(prog []*Step, in *Rec, key string) string {
	if !strings.HasSuffix(key, "mismatch:match/glob") {
		return key
	}
	if strings.HasPrefix(key, "second-record:") {
		// right on a fresh instance, wrong after another record: state carried between records, never the library
		return key + ":" + globKeyHistory
	}
	return key + ":" + classifyGlobMismatch(globPatternOf(prog), in.F[fLvl])
}

// classifyGlobMismatch is called when the product's decision for (pattern, value) is the opposite of the reference's.
func classifyGlobMismatch(pattern, value string) string {
	want := matchGlob(value, pattern)
	real := !want
	direct, ok := gobwasDirect(pattern, value)
	if !ok || direct != real {
		return globKeyProduct
	}
	// The library itself is wrong. Defect 1: '?' is counted in bytes. Demonstrated if replacing every multi-byte
	// character of the value by a fresh one-byte character (absent from pattern and value, so the reference answer
	// cannot change) makes the library right.
	v := value
	if sub, changed := asciiTwin(pattern, value); changed && matchGlob(sub, pattern) == want {
		d, ok := gobwasDirect(pattern, sub)
		if ok && d == want {
			if hasUnescaped(pattern, '?') {
				return globKeyQByte
			}
			return globKeyUnclassifi
		}
		v = sub // the mismatch does not need the multi-byte characters: go on with the one-byte twin
	}
	// Defect 2: the pattern "?" accepts the empty value.
	if pattern == "?" && v == "" && real {
		return globKeyQEmpty
	}
	// Defect 3: literal*literal accepts a value in which prefix and suffix overlap.
	if pre, suf, ok := literalStarLiteral(pattern); ok && real && strings.HasPrefix(v, pre) && strings.HasSuffix(v, suf) && len(v) < len(pre)+len(suf) {
		return globKeyOverlap
	}
	// Defect 4: '*' inside an alternative of a brace group. Demonstrated if the library answers the union of the
	// brace-free expansions of the pattern correctly (and wrongly only in the brace form).
	if exps, star := expandBraces(pattern); star && len(exps) > 1 {
		union, all := false, true
		for _, x := range exps {
			d, ok := gobwasDirect(x, v)
			if !ok {
				all = false
				break
			}
			union = union || d
		}
		if all && union == want {
			return globKeyBraceStar
		}
	}
	return globKeyUnclassifi
}

// asciiTwin replaces every multi-byte character of value by one fresh ASCII letter.
func asciiTwin(pattern, value string) (string, bool) {
	multibyte := false
	for i := 0; i < len(value); i++ {
		if value[i] >= 0x80 {
			multibyte = true
		}
	}
	if !multibyte || !utf8.ValidString(value) {
		return value, false
	}
	for i := 0; i < len(pattern); i++ {
		if pattern[i] >= 0x80 {
			return value, false // the pattern names multi-byte characters itself: no neutral replacement
		}
	}
	fresh := byte(0)
	for c := byte('z'); c >= 'c'; c-- {
		if strings.IndexByte(pattern, c) < 0 && strings.IndexByte(value, c) < 0 {
			fresh = c
			break
		}
	}
	if fresh == 0 {
		return value, false
	}
	var b strings.Builder
	for _, r := range value {
		if r >= 0x80 {
			b.WriteByte(fresh)
		} else {
			b.WriteRune(r)
		}
	}
	return b.String(), true
}

// hasUnescaped reports an unescaped occurrence of c outside a character class.
func hasUnescaped(pattern string, c byte) bool {
	inClass := false
	for i := 0; i < len(pattern); i++ {
		switch {
		case pattern[i] == '\\':
			i++
		case inClass:
			if pattern[i] == ']' {
				inClass = false
			}
		case pattern[i] == '[':
			inClass = true
		case pattern[i] == c:
			return true
		}
	}
	return false
}

// literalStarLiteral recognises <literal> <one or more *> <literal> with both literals non-empty and free of any
// special character.
func literalStarLiteral(pattern string) (pre, suf string, ok bool) {
	i := strings.IndexByte(pattern, '*')
	if i <= 0 {
		return "", "", false
	}
	j := i
	for j < len(pattern) && pattern[j] == '*' {
		j++
	}
	pre, suf = pattern[:i], pattern[j:]
	if suf == "" || strings.ContainsAny(pre+suf, `*?[]{}\`) {
		return "", "", false
	}
	return pre, suf, true
}

// expandBraces returns the brace-free expansions of the pattern (every combination of alternatives) and whether an
// alternative contains an unescaped '*'. Patterns it cannot expand safely are returned unexpanded.
func expandBraces(pattern string) (out []string, starInside bool) {
	depth, start, open := 0, -1, -1
	inClass := false
	var alts []string
	for i := 0; i < len(pattern); i++ {
		c := pattern[i]
		switch {
		case c == '\\':
			i++
		case inClass:
			if c == ']' {
				inClass = false
			}
		case c == '[':
			inClass = true
		case c == '{':
			if depth == 0 {
				open, start = i, i+1
			}
			depth++
		case c == ',' && depth == 1:
			alts = append(alts, pattern[start:i])
			start = i + 1
		case c == '*' && depth > 0:
			starInside = true
		case c == '}' && depth > 0:
			depth--
			if depth == 0 {
				alts = append(alts, pattern[start:i])
				for _, a := range alts {
					rest, s2 := expandBraces(a + pattern[i+1:])
					starInside = starInside || s2
					for _, r := range rest {
						out = append(out, pattern[:open]+r)
						if len(out) > 256 {
							return []string{pattern}, starInside
						}
					}
				}
				return out, starInside
			}
		}
	}
	return []string{pattern}, false
}
