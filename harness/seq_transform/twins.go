package main

import (
	"strings"
	"unicode"
)

// twins derives from a configured string (match argument, mapping key) the values that a sloppy comparison would
// confuse with it: other letter case, Unicode characters whose simple case folding is one of its letters (ſ / s,
// KELVIN SIGN / k, decomposed accents), a leading / trailing blank, a trailing NUL byte, the string doubled.
// None of them equals the argument.
func twins(arg string) []string {
	swap := strings.Map(func(r rune) rune {
		if unicode.IsUpper(r) {
			return unicode.ToLower(r)
		}
		return unicode.ToUpper(r)
	}, arg)
	fold := strings.NewReplacer("s", "\u017f", "S", "\u017f", "k", "\u212a", "K", "\u212a", "\u00e9", "e\u0301", "\u00c9", "E\u0301").Replace(arg)
	cands := []string{strings.ToUpper(arg), strings.ToLower(arg), swap, fold, arg + " ", " " + arg, arg + "\x00", arg + arg, "\t" + arg + "\n"}
	var out []string
	seen := map[string]bool{arg: true}
	for _, c := range cands {
		if !seen[c] {
			seen[c] = true
			out = append(out, c)
		}
	}
	return out
}
