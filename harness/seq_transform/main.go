// Command seq_transform decides C15: transforms and matchers behave as documented for all values.
// Bounded-exhaustive enumeration of transform programs (rendered to YAML and built through the real configuration path)
// x field values, compared with the reference interpreter in ref.go.
package main

import (
	"fmt"
	"os"
	"runtime/debug"
	"runtime/pprof"
	"sort"
	"strings"
	"time"

	"github.com/relex/gotils/logger"
	"github.com/relex/slog-agent/defs"
	"github.com/relex/slog-agent/transform"

	"slogverif/seq"
)

const rawLength = 137

func rec(msg, tag, aux, lvl string) *Rec {
	return &Rec{F: []string{msg, tag, aux, lvl}, RawLength: rawLength}
}

func recID(r *Rec) string {
	parts := make([]string, len(r.F))
	for i, f := range r.F {
		parts[i] = abbrev(f) // strconv.Quote for values up to 120 bytes
	}
	u := ""
	if r.Unescaped {
		u = "!U"
	}
	return strings.Join(parts, ",") + u
}

type enumerator struct {
	ctx *seq.Ctx
	// rekey, when set, maps the generic violation key of a (program, record) case to a more specific class
	rekey func(prog []*Step, in *Rec, key string) string
	// invalid marks the configurations the menus contain as deliberately invalid (expected to be rejected by the loader)
	invalid map[*Step]bool
}

// bad marks a single-step program as deliberately invalid: the documentation forbids it (unknown field, empty
// pattern, percentage out of 1..100, ...). Only such programs may be rejected without a finding.
func (e *enumerator) bad(s *Step) []*Step {
	if e.invalid == nil {
		e.invalid = map[*Step]bool{}
	}
	e.invalid[s] = true
	return one(s)
}

// emit passes one (program, record) case to the driver. in2 is the record sent second through the same instance.
func (e *enumerator) emit(scope, id string, prog []*Step, in, in2 *Rec) {
	if e.rekey != nil {
		rk := e.rekey
		e.emitKeyed(scope, id, prog, in, in2, func(key string) string { return rk(prog, in, key) })
		return
	}
	e.emitKeyed(scope, id, prog, in, in2, nil)
}

// emitKeyed: rekey may map a generic violation key to a more specific class.
func (e *enumerator) emitKeyed(scope, id string, prog []*Step, in, in2 *Rec, rekey func(string) string) {
	ctx := e.ctx
	if !ctx.Mine() {
		ctx.Skip()
		return
	}
	nt := nontrivialFor(prog, in)
	input := RenderYAML(prog) + "record: " + describeRec(in)
	if in2 != nil {
		input += "\nthen:   " + describeRec(in2)
	}
	ctx.Case(id, nt, input, func() (string, string) {
		key, msg := checkProgram(scope, prog, in, in2)
		if key != "" && rekey != nil {
			key = rekey(key)
		}
		return key, msg
	})
}

// leafGroup enumerates configs x values for one transform kind. Configurations the real VerifyConfig (or YAML
// unmarshalling) rejects are out of scope (C16): they are counted in group "rejected-config/<name>" and skipped.
func (e *enumerator) leafGroup(name string, configs [][]*Step, values func(prog []*Step) []*Rec) {
	e.leafGroupCustom(name, configs, values, nil)
}

// leafGroupCustom: custom may return a special case body for a (program, record), or nil for the standard oracle.
func (e *enumerator) leafGroupCustom(name string, configs [][]*Step, values func(prog []*Step) []*Rec, custom func(prog []*Step, in *Rec) func() (string, string)) {
	ctx := e.ctx
	for _, prog := range configs {
		if ctx.Stop() {
			return
		}
		if _, err := loadReal(RenderYAML(prog)); err != nil {
			ctx.Group("rejected-config/" + name)
			msg := err.Error()
			expected := len(prog) == 1 && e.invalid[prog[0]]
			ctx.Case("rejected/"+name+"/"+compactSteps(prog), false, RenderYAML(prog)+"rejected: "+msg, func() (string, string) {
				if !expected {
					// a configuration of the valid menu that the loader refuses would silently remove all its cases from the run
					return "valid-configuration-rejected:" + name, "the configuration path rejected a configuration generated as valid (documented syntax): " + msg
				}
				return "", ""
			})
			continue
		}
		ctx.Group(name)
		vals := values(prog)
		pid := compactSteps(prog)
		for vi, v := range vals {
			id := name + "/" + pid + "/" + recID(v)
			if custom != nil {
				if body := custom(prog, v); body != nil {
					ctx.Case(id, true, RenderYAML(prog)+"record: "+describeRec(v), body)
					continue
				}
			}
			e.emit(name, id, prog, v, vals[(vi+1)%len(vals)])
		}
	}
}

func one(s *Step) []*Step { return []*Step{s} }

func dedupRecs(in []*Rec) []*Rec {
	seen := map[string]bool{}
	var out []*Rec
	for _, r := range in {
		id := recID(r)
		if !seen[id] {
			seen[id] = true
			out = append(out, r)
		}
	}
	return out
}

func enumerate(ctx *seq.Ctx) {
	e := &enumerator{ctx: ctx}
	e.addFields()
	e.delFields()
	e.mapValue()
	e.truncate()
	e.extractSpecial()
	e.unescape()
	e.replace()
	e.extractRegex()
	e.drop()
	e.matchers()
	e.pairs()
	e.contexts()
	e.nesting()
	e.sampling()
	e.longValues()
	e.byteSweeps()
	e.histories()
	if len(tolerance) > 0 {
		keys := make([]string, 0, len(tolerance))
		for k := range tolerance {
			keys = append(keys, k)
		}
		sort.Strings(keys)
		parts := make([]string, len(keys))
		for i, k := range keys {
			parts[i] = fmt.Sprintf("%s: %d", k, tolerance[k])
		}
		ctx.Note("open-points-reached (cases of ONE worker shard)", strings.Join(parts, "; "))
	}
}

func main() {
	if p := os.Getenv("VERIF_CPUPROFILE"); p != "" {
		f, _ := os.Create(p)
		pprof.StartCPUProfile(f)
		defer pprof.StopCPUProfile()
	}
	logger.SetLogLevel(logger.ErrorLevel)
	debug.SetGCPercent(800) // tiny live heap, millions of short-lived YAML documents
	transform.Register()
	// addFields preallocates a scratch buffer of this capacity per instance (1 MiB by default); it is only a capacity
	// hint (append grows it), so shrinking it changes no behaviour and keeps millions of fresh instances affordable.
	defs.InputLogMaxMessageBytes = 4096
	seq.Main(&seq.Config{
		Property: "C15",
		Level:    "exploration",
		Rule: "bounded-exhaustive enumeration of transform programs over the schema [msg tag aux lvl], each rendered to YAML, loaded through the registered config constructors + VerifyConfig + " +
			"bsupport.NewTransformsFromConfig and run with bsupport.RunTransforms on a fresh instance and a fresh heap-copied record, then a second, DIFFERENT record through the same instance (the " +
			"first live record is re-read afterwards); compared (fields, record.Unescaped, PASS/DROP, label counters count+bytes) with the reference interpreter ref.go. Groups: leaf/*: every leaf " +
			"transform alone over its parameter menu (slice bounds {none,0,1,-1,-5,99}^2; boundaries {none,'[','] - '}^2 x classes {*,[a-z],[^ ],[0-9a-f-]} x maxLen {1,5,100} plus classes " +
			"{[^\\]],[a-z\\]],[^a-z],[-a-z],[a-zA-Z0-9_],[\\*],[^A-Zxmz-],[\\[\\]]} x maxLen {5,100}; the same with key == destKey; truncate maxLen 1..6 x suffix {'.','...','…'}; addFields also with the scratch " +
			"capacity scaled down to 8 bytes; ...) x boundary-biased values generated per configuration (empty, one char, label exactly filling / one byte beyond the search range, blanks only, control " +
			"bytes, Unicode spaces, DEL, backslashes and brackets in the label, multi-byte at the cut, escapes); match/*: every match operator x argument menu x value menu (incl. for every argument its " +
			"twins: other letter case, Unicode case-fold twins, blank / NUL added, doubled) under three carriers (if, switch case, drop), all pairs of a reduced operator menu (AND), and every glob " +
			"of 1..3 (quick) / 1..4 (thorough) tokens from {a,b,*,?,[ab],{a,b},{a*,b},**} x every value over {a,b,é} up to length 4; pairs: all ordered pairs of a reduced leaf menu, plain and with the " +
			"second step under an if, x 30 records; context/*: every leaf of the reduced menu under every control context path (if / switch first-case / switch second-case / block, alone / before / " +
			"after a marker step, condition true / false) of depth <=2 (quick) / <=3 (thorough); nest/*: all control programs of if/switch/block with positional marker leaves and 100% drops, breadth " +
			"<=2, depth 2 (quick) / 3 (thorough); sampling: every rate 1..99 x 4 wrappers x 4 match patterns, every prefix up to 2100 (quick) / 5000 (thorough) matched records; every rate on an " +
			"all-matching stream up to 70 000 / 1 100 000 records (thorough: four rates beyond 2^31/100); every rate x 3 patterns on two instances built from one parsed configuration; long/*: every " +
			"leaf transform and every match operator on values of the lengths {101, 1023..1025, cap-3..cap+1, 2cap+5, 65537, 70001} (cap = defs.InputLogMaxMessageBytes as set by the harness; thorough: " +
			"+-1 around every power of two up to 2^20) with the deciding bytes at the far end; bytes/*: all 256 byte values (+13 Unicode spaces) at the edges of an extracted label, all 256 byte values " +
			"against every class of the menu (with and without a far boundary), all 256 byte values substituted / added at the edges of a match argument and mapping key; history: every leaf of " +
			"the reduced menu (+7), alone, under an if, and every ordered pair, fed a stream of 33 records of mixed lengths (short, > 1024, > cap) to two instances built from ONE parsed " +
			"configuration (forwards / backwards, alternating), every result compared and every earlier live record of both instances re-read after every record. Non-trivial = the reference changes " +
			"something observable for the record (a field, the flag, DROP or a counter). Configurations the menus mark as deliberately invalid and the real VerifyConfig/unmarshalling rejects are counted " +
			"(groups rejected-config/*) and not run; a rejected configuration of the VALID menu is a violation (valid-configuration-rejected:<group>).",
		Assumptions: []string{
			"addFields with several pairs is generated only with pairs that do not read each other's destinations (pair order is a Go map order; the documentation defines none)",
			"open points of the documentation are accepted either way (never a panic): an empty target between boundaries with a bracket class; a target of blanks only (empty label + cut, or no change); " +
				"replace on an empty (= undefined) field; extract: a named group that did not take part in the match (left alone or cleared); the exact pattern of sampled drop decisions",
			"unescape follows A.4: once per record (it marks the record unescaped, a later unescape of any field is skipped)",
			"extractHead/extractTail with a bracket class and no far boundary: the target is the maximal run of class bytes, maxLen not applied (documentation silent)",
			"extractHead/extractTail with key == destKey (accepted by the loader, not spelled out by the documentation): 'extract ... to destKey' - the field ends up holding the label (A.4: the source is cut, then the destination receives the label); these cases have their own key scope leaf/<kind>[key=destKey]",
			"inside a bracket class only the documented escapes \\[ \\] \\* are generated; boundaries escape [ ] * and the backslash",
			"truncate equality is required for valid UTF-8 values; for invalid UTF-8 only: no panic, suffix present, length <= maxLen+len(suffix), other fields untouched",
			"mapValue without a configured default maps unlisted values to the empty string",
			"glob / regex operators are swept with ASCII bytes only at the argument edges (the pattern languages do not define bytes that are not valid UTF-8); the string operators and mapValue with all 256",
			"!!glob mismatches are KEYED (never judged) with the help of a direct call of gobwas/glob: a mismatch is attributed to one of the four recorded library defects only if the library itself gives the same wrong answer for the same pattern and value AND the minimal symptom of that defect is demonstrated on this case; otherwise the key is product-differs-from-gobwas / gobwas-same-answer:unclassified / history-dependent",
			"parseTime (C13) and redactEmail (C14) are excluded; configurations VerifyConfig rejects are out of scope (C16) when the menu marks them invalid",
			"defs.InputLogMaxMessageBytes (capacity of the addFields scratch buffer) is lowered from 1 MiB to 4 KiB by the harness (to 8 bytes in group leaf/addFields[cap8]); values longer than it are part of the menus (long/*, history), so the growth path is executed",
			"real concurrency between instances (several goroutines) is not driven by this sequential harness; instances are interleaved on one goroutine",
		},
		Enumerate:        enumerate,
		QuickDeadline:    20 * time.Minute,
		ThoroughDeadline: 45 * time.Minute,
	})
}

var _ = fmt.Sprintf
