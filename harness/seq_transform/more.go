package main

// Remaining leaf groups, match operators, pairs of leaves, leaves under control contexts, control nesting, sampling.

import (
	"fmt"
	"strings"

	"slogverif/seq"
)

func sp(s string) *string { return &s }

// ---------------------------------------------------------------------------------------------------------------------

func (e *enumerator) delFields() {
	configs := [][]*Step{
		one(&Step{K: KDel, Keys: []string{"tag"}}),
		one(&Step{K: KDel, Keys: []string{"tag", "aux"}}),
		one(&Step{K: KDel, Keys: []string{"msg", "tag", "aux", "lvl"}}),
		one(&Step{K: KDel, Keys: []string{"tag", "tag"}}),
		e.bad(&Step{K: KDel, Keys: nil}),
		e.bad(&Step{K: KDel, Keys: []string{"nosuch"}}),
	}
	vals := []*Rec{rec("m", "T", "X", "L"), rec("", "", "", ""), rec("m", "", "X", ""), rec("", "T", "", "L")}
	e.leafGroup("leaf/delFields", configs, func([]*Step) []*Rec { return vals })
}

func (e *enumerator) mapValue() {
	mappings := [][][2]string{
		{{"a", "ALPHA"}, {"b", ""}},
		{{"a", "b"}, {"b", "a"}},
		{{"é", "e"}, {" ", "space"}},
		{{"Ab", "mixed"}, {"sk", "fold"}},
	}
	var configs [][]*Step
	for _, m := range mappings {
		for _, d := range []*string{nil, sp("DEF"), sp("")} {
			configs = append(configs, one(&Step{K: KMap, Key: "lvl", Mapping: m, Default: d}))
		}
	}
	configs = append(configs,
		e.bad(&Step{K: KMap, Key: "nosuch", Mapping: mappings[0]}),
		e.bad(&Step{K: KMap, Key: "lvl", Mapping: nil}),
	)
	lvls := []string{"", "a", "b", "c", "A", "a ", "é", " ", "ALPHA"}
	for _, m := range mappings {
		for _, kv := range m {
			lvls = append(lvls, kv[0])
			lvls = append(lvls, twins(kv[0])...) // values that differ from a key only by case / folding / a blank / a NUL
		}
	}
	var vals []*Rec
	for _, lvl := range lvls {
		vals = append(vals, rec("m", "T", "X", lvl))
	}
	vals = dedupRecs(vals)
	e.leafGroup("leaf/mapValue", configs, func([]*Step) []*Rec { return vals })
}

func (e *enumerator) unescape() {
	um, ut := &Step{K: KUnesc, Key: "msg"}, &Step{K: KUnesc, Key: "tag"}
	configs := [][]*Step{
		{um}, {ut}, {um, ut}, {ut, um}, {um, um},
		e.bad(&Step{K: KUnesc, Key: "nosuch"}),
	}
	texts := []string{"", "a", `\n`, `a\nb`, `\\`, `\\n`, `\`, `a\`, `\x`, `\\\`, `\t\r\b\f`, `a\\\nb`, `\é`, "日\\n本", `\n\n`, `x\Xhello\n`,
		"real\nnewline\\n", `\\\\`, `\"q\"`, `\0\a\v`, `tail\\`}
	// flag-major order: the record sent second through the same instance (the next one of the menu) carries the same
	// Unescaped flag and a DIFFERENT text and tag, so that both records of a case take the same write path with different
	// contents (a result parked in per-instance scratch memory is then overwritten and seen by the re-read of the first).
	var vals []*Rec
	for _, un := range []bool{false, true} {
		for i, t := range texts {
			r := rec(t, []string{`t\tg`, `u\nvw`, `\\x\ry`}[i%3], "X", "L")
			r.Unescaped = un
			vals = append(vals, r)
		}
	}
	e.leafGroup("leaf/unescape", configs, func([]*Step) []*Rec { return vals })
}

func (e *enumerator) replace() {
	pr := [][2]string{
		{"a+", "X"}, {"(a)(b)", "$2$1"}, {"(?P<n>[0-9]+)", "<${n}>"}, {"^", ">"}, {"b*", "-"}, {".", ""}, {"é", "e"}, {"x", "$0$0"},
		{"a", "$nosuch"}, {"$", "!"}, {`^(a.*b).{2,}$`, "$1 ... (cut)"},
		{"[", "x"}, {"", "x"}, // rejected
	}
	var configs [][]*Step
	for _, p := range pr {
		st := &Step{K: KReplace, Key: "msg", Pattern: p[0], Repl: p[1]}
		if p[0] == "[" || p[0] == "" {
			configs = append(configs, e.bad(st))
			continue
		}
		configs = append(configs, one(st))
	}
	configs = append(configs, e.bad(&Step{K: KReplace, Key: "nosuch", Pattern: "a", Repl: "b"}))
	var vals []*Rec
	for _, t := range []string{"", "a", "aaa", "ab", "abab", "b", "xyz", "a1b22", "é", "日本", "bab", "a--b12345", "\n"} {
		vals = append(vals, rec(t, "T", "X", "L"))
	}
	e.leafGroup("leaf/replace", configs, func([]*Step) []*Rec { return vals })
}

func (e *enumerator) extractRegex() {
	patterns := []string{
		`^(?P<tag>[a-z]+)=(?P<aux>[0-9]*)`,
		`(?P<tag>x)?(?P<aux>y)`,
		`^(?P<msg>[a-z]+)`,
		`(?P<tag>[0-9]+)`,
		`^((?P<tag>[^ /]+)/)?(?P<aux>[^ ]*?)(\.(?P<lvl>-?[0-9]+))?$`,
		`(a)(?P<tag>b)`,
		`^(?P<tag>.*)$`,
		`(?P<tag>`, ``, // rejected
	}
	var configs [][]*Step
	for _, p := range patterns {
		st := &Step{K: KExtract, Key: "msg", Pattern: p}
		if p == "(?P<tag>" || p == "" {
			configs = append(configs, e.bad(st))
			continue
		}
		configs = append(configs, one(st))
	}
	configs = append(configs, e.bad(&Step{K: KExtract, Key: "nosuch", Pattern: "a"}))
	var vals []*Rec
	for _, t := range []string{"", "abc=123", "abc=", "=1", "y", "xy", "zy x", "a1b22", "ab", "production/hourly.log.202012311030", "testing/main.log", "é=1", "ab ab"} {
		vals = append(vals, rec(t, "T0", "X", "L"))
	}
	e.leafGroup("leaf/extract", configs, func([]*Step) []*Rec { return vals })
}

// ---------------------------------------------------------------------------------------------------------------------
// Match operators

func hit() *Step { return add(Pair{"tag", Tmpl{lit("HIT")}}) }

func (e *enumerator) matchers() {
	var conds []Cond
	strArgs := []string{"a", "ab", "é", " ", "a c", "12", "Ab", "sk"}
	for _, op := range []string{"", "str", "str-eq", "str-not", "str-start", "str-end", "str-contain"} {
		for _, arg := range strArgs {
			conds = append(conds, Cond{"lvl", op, arg})
		}
	}
	conds = append(conds, Cond{"lvl", "str-any", ""})
	for _, op := range []string{"len-gt", "len-lt"} {
		for _, arg := range []string{"0", "1", "2", "5", "-1", "100"} {
			conds = append(conds, Cond{"lvl", op, arg})
		}
	}
	for _, g := range []string{"*", "a*", "*a", "a?c", "?", "[ab]c", "[a-c]*", "[!a]b", "{ab,cd}", "a**", "**", "a*b*c", "*b*", "api.*.{com,co.uk}",
		"P[OU][ST]** params=**", `\*`, "{a,ab}c", "{a*,b}c", "a", "??", "*é", "[é]"} {
		conds = append(conds, Cond{"lvl", "glob", g})
	}
	for _, r := range []string{"^a", "a$", "^(a|b)+$", "[0-9]{2}", "^$", "é", `^(P(OS|U)T)\s`, ".", "^.$", `(local[0-9]|syslog)`} {
		conds = append(conds, Cond{"lvl", "regex", r})
	}
	// rejected by unmarshalling
	badConds := []Cond{{"lvl", "str", ""}, {"lvl", "", ""}, {"lvl", "str-any", "x"}, {"lvl", "len-gt", "x"}, {"lvl", "regex", "["},
		{"lvl", "glob", "["}, {"lvl", "hello", "a"}, {"lvl", "str-contain", ""}}
	nGood := len(conds)
	conds = append(conds, badConds...)
	values := []string{"", "a", "b", "c", "ab", "abc", "ba", "aXc", "a c", " ", "é", "aé", "aéc", "abcdef", "12", "x12y", "*", "cd", "bb", "bc", "abXbYc",
		"api.foo.com", "api.foo.co.uk", "api.foo.org", "api..com", `PUT "/new", status=201 params={"name": "new entry"}`,
		`GET "/logs", status=200 params={"format":"json"}`, "POST x", "a\nb", "syslog", "local7", "ac", "abc\n"}
	// the value menu is derived from the argument menu as well: for every argument its twins (other letter case, Unicode
	// characters that case-fold to it, a leading / trailing blank, a trailing NUL, doubled)
	for _, a := range strArgs {
		values = append(values, a)
		values = append(values, twins(a)...)
	}
	var vals []*Rec
	for _, v := range values {
		vals = append(vals, rec("m", "T0", "X", v))
	}
	vals = dedupRecs(vals)
	var opOrder []string
	byOp := map[string][][]*Step{}
	for ci, c := range conds {
		m := Match{c}
		op := c.Op
		if op == "" {
			op = "untagged"
		}
		if _, ok := byOp[op]; !ok {
			opOrder = append(opOrder, op)
		}
		wrap := one
		if ci >= nGood {
			wrap = e.bad
		}
		byOp[op] = append(byOp[op],
			wrap(&Step{K: KIf, M: m, Then: one(hit())}),
			wrap(&Step{K: KSwitch, Cases: []Case{{M: m, Then: one(hit())}}}),
			wrap(&Step{K: KDrop, M: m, Pct: 100, Label: "matched"}),
		)
	}
	for _, op := range opOrder {
		if op == "glob" {
			e.rekey = globRekey
		}
		e.leafGroup("match/"+op, byOp[op], func([]*Step) []*Rec { return vals })
		e.rekey = nil
	}
	e.globSystematic()

	// AND of two conditions on two fields
	var configs [][]*Step
	red := []Cond{{"", "", "a"}, {"", "str-not", "a"}, {"", "str-start", "a"}, {"", "str-any", ""}, {"", "len-lt", "2"}, {"", "glob", "a*"}, {"", "regex", "b$"}, {"", "str-contain", "b"}}
	for _, c1 := range red {
		for _, c2 := range red {
			c1.Field, c2.Field = "lvl", "msg"
			configs = append(configs, one(&Step{K: KIf, M: Match{c1, c2}, Then: one(hit())}))
		}
	}
	// three conditions
	configs = append(configs, one(&Step{K: KIf, M: Match{{"lvl", "regex", "^a"}, {"msg", "str-contain", "b"}, {"aux", "str-any", ""}}, Then: one(hit())}))
	vals = nil
	for _, lvl := range []string{"", "a", "ab", "b"} {
		for _, msg := range []string{"", "a", "ab", "b"} {
			vals = append(vals, rec(msg, "T0", "X", lvl))
		}
	}
	vals = append(vals, rec("ab", "T0", "", "ab"))
	e.leafGroup("match/and", configs, func([]*Step) []*Rec { return vals })
}

// globSystematic: every glob made of 1..3 (quick) / 1..4 (thorough) tokens x every value over {a,b,é} up to length 4.
func (e *enumerator) globSystematic() {
	tokens := []string{"a", "b", "*", "?", "[ab]", "{a,b}", "{a*,b}", "**"}
	maxTok := 3
	if e.ctx.Thorough() {
		maxTok = 4
	}
	var vals []*Rec
	var gen func(prefix string, n int)
	gen = func(prefix string, n int) {
		vals = append(vals, rec("m", "T0", "X", prefix))
		if n == 0 {
			return
		}
		for _, c := range []string{"a", "b", "é"} {
			gen(prefix+c, n-1)
		}
	}
	gen("", 4)
	var configs [][]*Step
	var pat func(prefix string, n int)
	pat = func(prefix string, n int) {
		if prefix != "" {
			configs = append(configs, one(&Step{K: KIf, M: Match{{"lvl", "glob", prefix}}, Then: one(hit())}))
		}
		if n == 0 {
			return
		}
		for _, t := range tokens {
			pat(prefix+t, n-1)
		}
	}
	pat("", maxTok)
	e.rekey = globRekey
	e.leafGroup("match/glob", configs, func([]*Step) []*Rec { return vals })
	e.rekey = nil
}

// ---------------------------------------------------------------------------------------------------------------------
// Reduced leaf menu (one or two representative configurations of every leaf transform, sharing fields so that steps
// interact) used for pairs and for leaves under control contexts.

func reducedLeaves() []*Step {
	return []*Step{
		add(Pair{"tag", Tmpl{v("msg")}}),
		add(Pair{"tag", Tmpl{vs("msg", ip(1), ip(-1))}}),
		add(Pair{"msg", Tmpl{lit("<"), v("msg"), lit(">")}}),
		add(Pair{"tag", Tmpl{lit("LONGCONSTANT")}}),
		add(Pair{"aux", Tmpl{v("tag")}}),
		{K: KDel, Keys: []string{"msg"}},
		{K: KDel, Keys: []string{"tag"}},
		{K: KMap, Key: "lvl", Mapping: [][2]string{{"a", "ALPHABETIC"}}, Default: sp("DEFAULTVAL")},
		{K: KHead, Key: "msg", Dest: "tag", Left: "[", Class: "*", Right: "] - ", MaxLen: 100},
		{K: KHead, Key: "msg", Dest: "aux", Left: "", Class: "[a-z]", Right: "=", MaxLen: 10},
		{K: KTail, Key: "msg", Dest: "tag", Left: ":", Class: "[0-9a-f-]", Right: "", MaxLen: 41},
		{K: KTail, Key: "msg", Dest: "aux", Left: "/", Class: "*", Right: "", MaxLen: 100},
		{K: KTrunc, Key: "msg", MaxLen: 3, Suffix: ".."},
		{K: KTrunc, Key: "tag", MaxLen: 2, Suffix: "…"},
		{K: KTrunc, Key: "lvl", MaxLen: 2, Suffix: "."},
		{K: KTrunc, Key: "aux", MaxLen: 1, Suffix: "."},
		{K: KUnesc, Key: "msg"},
		{K: KUnesc, Key: "tag"},
		{K: KReplace, Key: "msg", Pattern: "a+", Repl: "X"},
		{K: KReplace, Key: "tag", Pattern: "(.)", Repl: "$1$1"},
		{K: KExtract, Key: "msg", Pattern: `^(?P<tag>[a-z]+)=(?P<aux>[0-9]*)`},
		{K: KExtract, Key: "msg", Pattern: `(?P<tag>[0-9a-f-]+)$`},
		{K: KDrop, M: Match{{"tag", "str-any", ""}}, Pct: 100, Label: "d1"},
		{K: KDrop, M: Match{{"msg", "len-gt", "12"}}, Pct: 100, Label: "d2"},
	}
}

func (e *enumerator) pairs() {
	leaves := reducedLeaves()
	// two DIFFERENT values with escapes, boundaries and keys per field (msgs[0] / msgs[1], tags[1] / tags[2]): a record and
	// its successor through the same instance then take the same write paths with different contents
	msgs := []string{`[cls ] - key=12 a\nb /vh:dead-beef`, `[Other] - k=7 x\ty\\z /w:0123-abcd`, "abcdefghijklmnop", "k=1", ""}
	tags := []string{"", `T0\tT0T0`, `U1\nU1`}
	lvls := []string{"a", "b"}
	type coord struct{ m, t, l int }
	var vals []*Rec
	var coords []coord
	for mi, msg := range msgs {
		for ti, tag := range tags {
			for li, lvl := range lvls {
				vals = append(vals, rec(msg, tag, "X", lvl))
				coords = append(coords, coord{mi, ti, li})
			}
		}
	}
	index := func(c coord) int { return (c.m*len(tags)+c.t)*len(lvls) + c.l }
	// the record sent second: always another msg and another tag; "same": the same lvl (both records take the same branch
	// of an if on lvl), "flip": the other lvl
	successor := func(vi int, flip bool) *Rec {
		c := coords[vi]
		n := coord{(c.m + 1) % len(msgs), (c.t + 1) % len(tags), c.l}
		if flip {
			n.l = 1 - c.l
		}
		return vals[index(n)]
	}
	shapes := []struct {
		name  string
		build func(a, b *Step) []*Step
		flip  bool
	}{
		{"seq", func(a, b *Step) []*Step { return []*Step{a, b} }, true},
		{"if-lvl", func(a, b *Step) []*Step { return []*Step{a, {K: KIf, M: Match{{"lvl", "", "a"}}, Then: one(b)}} }, false},
		{"if-msglen", func(a, b *Step) []*Step { return []*Step{a, {K: KIf, M: Match{{"msg", "len-gt", "5"}}, Then: one(b)}} }, true},
	}
	e.ctx.Group("pairs")
	for _, a := range leaves {
		for _, b := range leaves {
			for _, sh := range shapes {
				if e.ctx.Stop() {
					return
				}
				prog := sh.build(a, b)
				pid := compactSteps(prog)
				first, second := a.K.String(), b.K.String()
				scope := "pairs:" + first + "+" + second
				rekey := func(key string) string {
					// a later truncate of a value whose bytes are shared with another field or with the configuration
					if second == "truncate" && strings.HasSuffix(key, "mismatch:"+scope+":field") {
						return strings.TrimSuffix(key, "mismatch:"+scope+":field") + "alias:truncate-overwrites-bytes-shared-after-" + first
					}
					return key
				}
				for vi, v := range vals {
					if e.ctx.Thorough() {
						// every ordered pair of records through one instance
						for _, v2 := range vals {
							e.emitKeyed(scope, "pairs/"+pid+"/"+recID(v)+"/then/"+recID(v2), prog, v, v2, rekey)
						}
						continue
					}
					e.emitKeyed(scope, "pairs/"+pid+"/"+recID(v), prog, v, successor(vi, sh.flip), rekey)
				}
			}
		}
	}
}

// ---------------------------------------------------------------------------------------------------------------------
// Leaves under control contexts

// marker appends one letter to aux: the trace of executed marker steps.
func marker(letter byte) *Step {
	return add(Pair{"aux", Tmpl{vb("aux"), lit(string([]byte{letter}))}})
}

type seqBuilder func(next *byte) []*Step // builds a fresh step sequence, taking marker letters from *next

func (e *enumerator) contexts() {
	maxDepth := 2
	if e.ctx.Thorough() {
		maxDepth = 3
	}
	newMark := func(next *byte) *Step {
		m := marker(*next)
		*next++
		return m
	}
	condA := Match{{"lvl", "", "a"}}
	condB := Match{{"lvl", "", "b"}}
	condAny := Match{{"lvl", "str-any", ""}}
	wrappers := []struct {
		name string
		wrap func(inner []*Step, next *byte) *Step
	}{
		{"if", func(inner []*Step, _ *byte) *Step { return &Step{K: KIf, M: condA, Then: inner} }},
		{"sw1", func(inner []*Step, _ *byte) *Step { return &Step{K: KSwitch, Cases: []Case{{condA, inner}}} }},
		{"sw2", func(inner []*Step, next *byte) *Step {
			return &Step{K: KSwitch, Cases: []Case{{condB, one(newMark(next))}, {condAny, inner}}}
		}},
		{"blk", func(inner []*Step, _ *byte) *Step { return &Step{K: KBlock, Steps: inner} }},
	}
	placements := []struct {
		name  string
		place func(s *Step, next *byte) []*Step
	}{
		{"only", func(s *Step, _ *byte) []*Step { return []*Step{s} }},
		{"after", func(s *Step, next *byte) []*Step { return []*Step{newMark(next), s} }},
		{"before", func(s *Step, next *byte) []*Step { return []*Step{s, newMark(next)} }},
	}
	// a context is a list of (placement, wrapper) choices from the inside out, ending with the outermost placement
	type ctxShape struct {
		name  string
		build func(x *Step, next *byte) []*Step
	}
	level0 := []ctxShape{}
	for _, p := range placements {
		p := p
		level0 = append(level0, ctxShape{p.name, func(x *Step, next *byte) []*Step { return p.place(x, next) }})
	}
	// per lvl three records; the first two differ in every byte that matters (escapes, label, keys) and follow each other,
	// so that the record sent second through the same instance takes the same path with different content
	var vals []*Rec
	for _, lvl := range []string{"a", "b", "c"} {
		vals = append(vals,
			rec(`[cls ] - key=12 a\nb /vh:dead-beef`, `T0\tT0T0`, "X", lvl),
			rec(`[Other] - k=7 x\ty\\z /w:0123-abcd`, `U1\nU1`, "X", lvl),
			rec("k=1", `T0\tT0T0`, "X", lvl))
	}
	leaves := reducedLeaves()
	shapes := level0
	for depth := 1; depth <= maxDepth; depth++ {
		var nextShapes []ctxShape
		for _, inner := range shapes {
			for _, w := range wrappers {
				for _, p := range placements {
					inner, w, p := inner, w, p
					nextShapes = append(nextShapes, ctxShape{p.name + "." + w.name + "(" + inner.name + ")", func(x *Step, next *byte) []*Step {
						body := inner.build(x, next)
						return p.place(w.wrap(body, next), next)
					}})
				}
			}
		}
		shapes = nextShapes
		e.ctx.Group(fmt.Sprintf("context/depth%d", depth))
		for _, sh := range shapes {
			if e.ctx.Stop() {
				return
			}
			for li, leaf := range leaves {
				var prog []*Step
				for vi, v := range vals {
					if !e.ctx.Mine() {
						e.ctx.Skip()
						continue
					}
					if prog == nil {
						next := byte('a')
						prog = sh.build(leaf, &next)
					}
					id := fmt.Sprintf("context/%s/leaf%d/%s", sh.name, li, recID(v))
					e.emit("context:"+leaf.K.String(), id, prog, v, vals[(vi+1)%len(vals)])
				}
			}
		}
	}
}

// ---------------------------------------------------------------------------------------------------------------------
// Control nesting: all programs of if / switch / block over positional marker leaves and 100% drops.

// shape trees are immutable and shared; leaves carry only their kind. label() turns one into a program.
type shape struct {
	kind  byte // 'm' marker, 'd' drop, 'i' if, 's' switch, 'b' block
	cond  [2]int8
	kids  [2][]*shape // if/block: kids[0]; switch: kids[0], kids[1] (second case optional)
	ncase int
}

var nestConds = []Match{{{"lvl", "", "a"}}, {{"lvl", "", "b"}}}

func labelShape(seqn []*shape, next *int) []*Step {
	out := make([]*Step, len(seqn))
	for i, sh := range seqn {
		switch sh.kind {
		case 'm':
			out[i] = marker(byte('a' + *next%26))
			if *next >= 26 {
				out[i] = add(Pair{"aux", Tmpl{vb("aux"), lit(fmt.Sprintf("<%d>", *next))}})
			}
			*next++
		case 'd':
			out[i] = &Step{K: KDrop, M: Match{{"lvl", "str-any", ""}}, Pct: 100, Label: fmt.Sprintf("d%d", *next)}
			*next++
		case 'i':
			out[i] = &Step{K: KIf, M: nestConds[sh.cond[0]], Then: labelShape(sh.kids[0], next)}
		case 'b':
			out[i] = &Step{K: KBlock, Steps: labelShape(sh.kids[0], next)}
		case 's':
			st := &Step{K: KSwitch}
			for c := 0; c < sh.ncase; c++ {
				st.Cases = append(st.Cases, Case{M: nestConds[sh.cond[c]], Then: labelShape(sh.kids[c], next)})
			}
			out[i] = st
		}
	}
	return out
}

var leafShapes = []*shape{{kind: 'm'}, {kind: 'd'}}

// controlsOver lists every control step whose bodies are taken from seqs (restricted form: in a two-case switch at most
// one body comes from seqs, the other is a single leaf).
func controlsOver(seqs [][]*shape, restricted bool, f func(*shape)) {
	for _, s := range seqs {
		for c := int8(0); c < 2; c++ {
			f(&shape{kind: 'i', cond: [2]int8{c}, kids: [2][]*shape{s}})
			f(&shape{kind: 's', ncase: 1, cond: [2]int8{c}, kids: [2][]*shape{s}})
		}
		f(&shape{kind: 'b', kids: [2][]*shape{s}})
	}
	if restricted {
		for _, s := range seqs {
			for _, l := range leafShapes {
				ls := []*shape{l}
				for c1 := int8(0); c1 < 2; c1++ {
					for c2 := int8(0); c2 < 2; c2++ {
						f(&shape{kind: 's', ncase: 2, cond: [2]int8{c1, c2}, kids: [2][]*shape{s, ls}})
						if !(len(s) == 1 && (s[0].kind == 'm' || s[0].kind == 'd')) { // both bodies single leaves: already produced above
							f(&shape{kind: 's', ncase: 2, cond: [2]int8{c1, c2}, kids: [2][]*shape{ls, s}})
						}
					}
				}
			}
		}
		return
	}
	for _, s1 := range seqs {
		for _, s2 := range seqs {
			for c1 := int8(0); c1 < 2; c1++ {
				for c2 := int8(0); c2 < 2; c2++ {
					f(&shape{kind: 's', ncase: 2, cond: [2]int8{c1, c2}, kids: [2][]*shape{s1, s2}})
				}
			}
		}
	}
}

// seqsOverRestricted: [t], [leaf, t], [t, leaf] for every step t (at most one control step per sequence).
func seqsOverRestricted(steps []*shape, f func([]*shape)) {
	for _, t := range steps {
		f([]*shape{t})
		isLeaf := t.kind == 'm' || t.kind == 'd'
		for _, l := range leafShapes {
			f([]*shape{l, t})
			if !isLeaf { // [leaf, leaf] is produced once by the line above
				f([]*shape{t, l})
			}
		}
	}
}

func (e *enumerator) nesting() {
	ctx := e.ctx
	var vals []*Rec
	for _, lvl := range []string{"a", "b", "c"} {
		vals = append(vals, rec("m", "T", "", lvl))
	}
	run := func(group string, s []*shape) {
		var prog []*Step
		pid := ""
		for vi, v := range vals {
			if !ctx.Mine() {
				ctx.Skip()
				continue
			}
			if prog == nil {
				n := 0
				prog = labelShape(s, &n)
				pid = compactSteps(prog)
			}
			e.emit("nest", group+"/"+pid+"/"+recID(v), prog, v, vals[(vi+1)%len(vals)])
		}
	}

	// (1) full breadth, one control level: every sequence of one or two steps, each a leaf or a control over leaf sequences
	ctx.Group("nest/depth1-full-breadth")
	var seq0 [][]*shape
	for _, a := range leafShapes {
		seq0 = append(seq0, []*shape{a})
		for _, b := range leafShapes {
			seq0 = append(seq0, []*shape{a, b})
		}
	}
	steps1 := append([]*shape{}, leafShapes...)
	controlsOver(seq0, false, func(s *shape) { steps1 = append(steps1, s) })
	for _, a := range steps1 {
		if ctx.Stop() {
			return
		}
		run("nest1", []*shape{a})
		for _, b := range steps1 {
			run("nest1", []*shape{a, b})
		}
	}

	// (2) restricted breadth (<= 2 steps per sequence and <= 2 cases per switch, at most one control step per sequence
	// and at most one non-leaf case body per switch), depth 2 (quick) / 3 (thorough)
	depth := 2
	if ctx.Thorough() {
		depth = 3
	}
	ctx.Group(fmt.Sprintf("nest/depth%d-restricted", depth))
	stepsD := append([]*shape{}, leafShapes...) // steps of depth 0
	var seqsD [][]*shape
	for d := 0; d < depth-1; d++ {
		seqsD = nil
		seqsOverRestricted(stepsD, func(s []*shape) { seqsD = append(seqsD, s) })
		stepsD = append([]*shape{}, leafShapes...)
		controlsOver(seqsD, true, func(s *shape) { stepsD = append(stepsD, s) })
	}
	// stepsD = steps of depth <= depth-1 (materialised); the last level is streamed
	seqsD = nil
	seqsOverRestricted(stepsD, func(s []*shape) { seqsD = append(seqsD, s) })
	group := fmt.Sprintf("nest%d", depth)
	emitTop := func(t *shape) {
		seqsOverRestricted([]*shape{t}, func(s []*shape) { run(group, s) })
	}
	for _, l := range leafShapes {
		emitTop(l)
	}
	stopped := false
	controlsOver(seqsD, true, func(t *shape) {
		if stopped || ctx.Stop() {
			stopped = true
			return
		}
		emitTop(t)
	})
}

// ---------------------------------------------------------------------------------------------------------------------
// Sampled drop: |dropped - rate*matched/100| <= 1 at every prefix of the matched stream; dropped counted under the
// label, retained under "!label"; records that do not match pass untouched.

func (e *enumerator) sampling() {
	ctx := e.ctx
	// every prefix up to matchedTarget matched records: beyond 1024 and 2048 (counters kept in windows or narrow integers
	// show only there); the bare drop on an all-matching stream much further (beyond 2^16; thorough beyond 2^20, and a few
	// rates beyond 2^31/100, where a 32-bit "100*dropped" would wrap)
	matchedTarget, longTarget := 2100, 70_000
	if ctx.Thorough() {
		matchedTarget, longTarget = 5000, 1_100_000
	}
	condA := Match{{"lvl", "", "a"}}
	wrappers := []struct {
		name string
		wrap func(d *Step) []*Step
	}{
		{"bare", func(d *Step) []*Step { return []*Step{d} }},
		{"if", func(d *Step) []*Step { return one(&Step{K: KIf, M: Match{{"msg", "str-any", ""}}, Then: one(d)}) }},
		{"switch2", func(d *Step) []*Step {
			return one(&Step{K: KSwitch, Cases: []Case{{Match{{"msg", "", "zz"}}, one(&Step{K: KDel, Keys: []string{"aux"}})}, {Match{{"msg", "str-any", ""}}, one(d)}}})
		}},
		{"block", func(d *Step) []*Step { return one(&Step{K: KBlock, Steps: []*Step{marker('m'), d, marker('n')}}) }},
	}
	patterns := []struct {
		name string
		lvls []string
	}{{"all", []string{"a"}}, {"alternate", []string{"a", "b"}}, {"aab", []string{"a", "a", "b"}}, {"baaab", []string{"b", "a", "a", "a", "b"}}}
	ctx.Group("sampling")
	for rate := 1; rate <= 99; rate++ {
		for _, w := range wrappers {
			for _, p := range patterns {
				rate, w, p := rate, w, p
				id := fmt.Sprintf("sampling/%d/%s/%s", rate, w.name, p.name)
				if !ctx.Mine() {
					ctx.Skip()
					continue
				}
				d := &Step{K: KDrop, M: condA, Pct: rate, Label: "sampled"}
				prog := w.wrap(d)
				ctx.Case(id, true, RenderYAML(prog)+"stream lvl pattern: "+strings.Join(p.lvls, ","), func() (string, string) {
					return checkSampling(prog, w.name == "block", rate, p.lvls, matchedTarget, 1)
				})
			}
		}
	}
	// two instances built from ONE parsed configuration (the agent builds one chain per connection / pipeline), fed
	// alternately 1 : 2; each must keep its own rate
	ctx.Group("sampling/two-instances")
	for rate := 1; rate <= 99; rate++ {
		for _, p := range patterns[:3] {
			rate, p := rate, p
			if !ctx.Mine() {
				ctx.Skip()
				continue
			}
			prog := one(&Step{K: KDrop, M: condA, Pct: rate, Label: "sampled"})
			ctx.Case(fmt.Sprintf("sampling2/%d/%s", rate, p.name), true, RenderYAML(prog)+"two instances, stream lvl pattern: "+strings.Join(p.lvls, ","), func() (string, string) {
				return checkSampling(prog, false, rate, p.lvls, matchedTarget/2, 2)
			})
		}
	}
	ctx.Group("sampling/long-stream")
	long := func(rate, target int) {
		if !ctx.Mine() {
			ctx.Skip()
			return
		}
		prog := one(&Step{K: KDrop, M: condA, Pct: rate, Label: "sampled"})
		ctx.Case(fmt.Sprintf("sampling-long/%d/%d", rate, target), true, RenderYAML(prog)+fmt.Sprintf("every record matches, %d records", target), func() (string, string) {
			return checkSampling(prog, false, rate, []string{"a"}, target, 1)
		})
	}
	for rate := 1; rate <= 99; rate++ {
		long(rate, longTarget)
	}
	if ctx.Thorough() {
		for _, rate := range []int{1, 33, 50, 99} {
			long(rate, (1<<31)/100+100_000)
		}
	}
}

type samplingState struct {
	ri                                            *realInstance
	matched, dropped, droppedBytes, retainedBytes int64
}

// checkSampling feeds records with the lvl pattern until every instance has seen matchedTarget matched records.
// With two instances (built from one parsed configuration) record i goes to instance 0 if i%3 == 0, else to instance 1.
func checkSampling(prog []*Step, blockWrapper bool, rate int, lvls []string, matchedTarget int, instances int) (string, string) {
	yamlText := RenderYAML(prog)
	cfgs, err := loadReal(yamlText)
	if err != nil {
		return "harness:generated-program-rejected", err.Error() + "\n" + yamlText
	}
	states := make([]*samplingState, instances)
	for k := range states {
		states[k] = &samplingState{ri: newRealInstance(cfgs)}
	}
	fed := make([]int, instances)
	for i := 0; ; i++ {
		st := states[0]
		which := 0
		if instances > 1 && i%3 != 0 {
			which = 1
			st = states[1]
		}
		if st.matched >= int64(matchedTarget) {
			done := true
			for _, o := range states {
				if o.matched < int64(matchedTarget) {
					done = false
				}
			}
			if done {
				return "", ""
			}
			continue
		}
		n := fed[which]
		fed[which]++
		in := rec("m", "T", "", lvls[n%len(lvls)])
		in.RawLength = 100 + n%7
		isMatch := in.F[fLvl] == "a"
		var out *Rec
		var wasDropped bool
		if site, detail := seq.Catch(func() { out, wasDropped = st.ri.run(in) }); site != "" {
			return "panic:" + site, detail
		}
		where := func() string {
			return fmt.Sprintf("record #%d of instance %d (lvl=%s) after %d matched / %d dropped, rate %d%%\n%s", n, which, in.F[fLvl], st.matched, st.dropped, rate, yamlText)
		}
		if !isMatch && wasDropped {
			return "sampling:unmatched-record-dropped", where()
		}
		if isMatch {
			st.matched++
			if wasDropped {
				st.dropped++
				st.droppedBytes += int64(in.RawLength)
			} else {
				st.retainedBytes += int64(in.RawLength)
			}
			if dev := 100*st.dropped - int64(rate)*st.matched; dev > 100 || dev < -100 {
				return "sampling:deviation-over-one-record", fmt.Sprintf("dropped=%d of matched=%d at rate %d%%: |dropped - rate*matched/100| = %.2f > 1\n%s", st.dropped, st.matched, rate, float64(dev)/100, where())
			}
		}
		// fields: the drop itself edits nothing; in the block wrapper the marker before the drop always runs, the one after
		// it only when the record is retained
		wantAux := ""
		if blockWrapper {
			wantAux = "m"
			if !wasDropped {
				wantAux = "mn"
			}
		}
		if out.F[fMsg] != "m" || out.F[fTag] != "T" || out.F[fLvl] != in.F[fLvl] || out.F[fAux] != wantAux {
			return "sampling:fields", fmt.Sprintf("real %s, expected aux=%q and the rest untouched\n%s", describeRec(out), wantAux, where())
		}
		gotD, _ := st.ri.counter("sampled")
		gotR, _ := st.ri.counter("!sampled")
		if gotD != (counter{st.dropped, st.droppedBytes}) || gotR != (counter{st.matched - st.dropped, st.retainedBytes}) {
			return "sampling:counter", fmt.Sprintf("label sampled: real %+v want {%d %d}; label !sampled: real %+v want {%d %d}\n%s", gotD, st.dropped, st.droppedBytes, gotR, st.matched-st.dropped, st.retainedBytes, where())
		}
	}
}
