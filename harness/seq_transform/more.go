package main

// Remaining leaf groups, match operators, pairs of leaves, leaves under control contexts, control nesting, sampling.

import (
	"fmt"
	"regexp"
	"strings"

	"slogverif/seq"
)

func sp(s string) *string { return &s }

// ---------------------------------------------------------------------------------------------------------------------

func (e *enumerator) delFields() {
	configs := [][]*Step{
		one(&Step{K: KDel, Keys: []string{"tag"}}),
		one(&Step{K: KDel, Keys: []string{"tag", "aux"}}),
		one(&Step{K: KDel, Keys: []string{"msg", "tag", "aux", "lvl"}}),
		one(&Step{K: KDel, Keys: []string{"tag", "tag"}}),
		one(&Step{K: KDel, Keys: nil}),
		one(&Step{K: KDel, Keys: []string{"nosuch"}}),
	}
	vals := []*Rec{rec("m", "T", "X", "L"), rec("", "", "", ""), rec("m", "", "X", ""), rec("", "T", "", "L")}
	e.leafGroup("leaf/delFields", configs, func([]*Step) []*Rec { return vals })
}

func (e *enumerator) mapValue() {
	mappings := [][][2]string{
		{{"a", "ALPHA"}, {"b", ""}},
		{{"a", "b"}, {"b", "a"}},
		{{"é", "e"}, {" ", "space"}},
	}
	var configs [][]*Step
	for _, m := range mappings {
		for _, d := range []*string{nil, sp("DEF"), sp("")} {
			configs = append(configs, one(&Step{K: KMap, Key: "lvl", Mapping: m, Default: d}))
		}
	}
	configs = append(configs,
		one(&Step{K: KMap, Key: "nosuch", Mapping: mappings[0]}),
		one(&Step{K: KMap, Key: "lvl", Mapping: nil}),
	)
	var vals []*Rec
	for _, lvl := range []string{"", "a", "b", "c", "A", "a ", "é", " ", "ALPHA"} {
		vals = append(vals, rec("m", "T", "X", lvl))
	}
	e.leafGroup("leaf/mapValue", configs, func([]*Step) []*Rec { return vals })
}

func (e *enumerator) unescape() {
	um, ut := &Step{K: KUnesc, Key: "msg"}, &Step{K: KUnesc, Key: "tag"}
	configs := [][]*Step{
		{um}, {ut}, {um, ut}, {ut, um}, {um, um},
		one(&Step{K: KUnesc, Key: "nosuch"}),
	}
	texts := []string{"", "a", `\n`, `a\nb`, `\\`, `\\n`, `\`, `a\`, `\x`, `\\\`, `\t\r\b\f`, `a\\\nb`, `\é`, "日\\n本", `\n\n`, `x\Xhello\n`,
		"real\nnewline\\n", `\\\\`, `\"q\"`, `\0\a\v`, `tail\\`}
	var vals []*Rec
	for _, t := range texts {
		for _, un := range []bool{false, true} {
			r := rec(t, `t\tg`, "X", "L")
			r.Unescaped = un
			vals = append(vals, r)
		}
	}
	e.leafGroup("leaf/unescape", configs, func([]*Step) []*Rec { return vals })
}

func (e *enumerator) replace() {
	pr := [][2]string{
		{"a+", "X"}, {"(a)(b)", "$2$1"}, {"(?P<n>[0-9]+)", "<${n}>"}, {"^", ">"}, {"b*", "-"}, {".", ""}, {"é", "e"}, {"x", "$0$0"},
		{"a", "$nosuch"}, {"$", "!"}, {`^(a.*b).{2,}$`, "$1 ... (cut)"},
		{"[", "x"}, {"", "x"}, // rejected
	}
	var configs [][]*Step
	for _, p := range pr {
		configs = append(configs, one(&Step{K: KReplace, Key: "msg", Pattern: p[0], Repl: p[1]}))
	}
	configs = append(configs, one(&Step{K: KReplace, Key: "nosuch", Pattern: "a", Repl: "b"}))
	var vals []*Rec
	for _, t := range []string{"", "a", "aaa", "ab", "abab", "b", "xyz", "a1b22", "é", "日本", "bab", "a--b12345", "\n"} {
		vals = append(vals, rec(t, "T", "X", "L"))
	}
	e.leafGroup("leaf/replace", configs, func([]*Step) []*Rec { return vals })
}

func (e *enumerator) extractRegex() {
	patterns := []string{
		`^(?P<tag>[a-z]+)=(?P<aux>[0-9]*)`,
		`(?P<tag>x)?(?P<aux>y)`,
		`^(?P<msg>[a-z]+)`,
		`(?P<tag>[0-9]+)`,
		`^((?P<tag>[^ /]+)/)?(?P<aux>[^ ]*?)(\.(?P<lvl>-?[0-9]+))?$`,
		`(a)(?P<tag>b)`,
		`^(?P<tag>.*)$`,
		`(?P<tag>`, ``, // rejected
	}
	var configs [][]*Step
	for _, p := range patterns {
		configs = append(configs, one(&Step{K: KExtract, Key: "msg", Pattern: p}))
	}
	configs = append(configs, one(&Step{K: KExtract, Key: "nosuch", Pattern: "a"}))
	var vals []*Rec
	for _, t := range []string{"", "abc=123", "abc=", "=1", "y", "xy", "zy x", "a1b22", "ab", "production/hourly.log.202012311030", "testing/main.log", "é=1", "ab ab"} {
		vals = append(vals, rec(t, "T0", "X", "L"))
	}
	e.leafGroup("leaf/extract", configs, func([]*Step) []*Rec { return vals })
}

// ---------------------------------------------------------------------------------------------------------------------
// Match operators

func hit() *Step { return add(Pair{"tag", Tmpl{lit("HIT")}}) }

func (e *enumerator) matchers() {
	var conds []Cond
	for _, op := range []string{"", "str", "str-eq", "str-not", "str-start", "str-end", "str-contain"} {
		for _, arg := range []string{"a", "ab", "é", " ", "a c", "12"} {
			conds = append(conds, Cond{"lvl", op, arg})
		}
	}
	conds = append(conds, Cond{"lvl", "str-any", ""})
	for _, op := range []string{"len-gt", "len-lt"} {
		for _, arg := range []string{"0", "1", "2", "5", "-1", "100"} {
			conds = append(conds, Cond{"lvl", op, arg})
		}
	}
	for _, g := range []string{"*", "a*", "*a", "a?c", "?", "[ab]c", "[a-c]*", "[!a]b", "{ab,cd}", "a**", "**", "a*b*c", "*b*", "api.*.{com,co.uk}",
		"P[OU][ST]** params=**", `\*`, "{a,ab}c", "{a*,b}c", "a", "??", "*é", "[é]"} {
		conds = append(conds, Cond{"lvl", "glob", g})
	}
	for _, r := range []string{"^a", "a$", "^(a|b)+$", "[0-9]{2}", "^$", "é", `^(P(OS|U)T)\s`, ".", "^.$", `(local[0-9]|syslog)`} {
		conds = append(conds, Cond{"lvl", "regex", r})
	}
	// rejected by unmarshalling
	conds = append(conds, Cond{"lvl", "str", ""}, Cond{"lvl", "", ""}, Cond{"lvl", "str-any", "x"}, Cond{"lvl", "len-gt", "x"}, Cond{"lvl", "regex", "["},
		Cond{"lvl", "glob", "["}, Cond{"lvl", "hello", "a"}, Cond{"lvl", "str-contain", ""})
	values := []string{"", "a", "b", "c", "ab", "abc", "ba", "aXc", "a c", " ", "é", "aé", "aéc", "abcdef", "12", "x12y", "*", "cd", "bb", "bc", "abXbYc",
		"api.foo.com", "api.foo.co.uk", "api.foo.org", "api..com", `PUT "/new", status=201 params={"name": "new entry"}`,
		`GET "/logs", status=200 params={"format":"json"}`, "POST x", "a\nb", "syslog", "local7", "ac", "abc\n"}
	var vals []*Rec
	for _, v := range values {
		vals = append(vals, rec("m", "T0", "X", v))
	}
	var opOrder []string
	byOp := map[string][][]*Step{}
	for _, c := range conds {
		m := Match{c}
		op := c.Op
		if op == "" {
			op = "untagged"
		}
		if _, ok := byOp[op]; !ok {
			opOrder = append(opOrder, op)
		}
		byOp[op] = append(byOp[op],
			one(&Step{K: KIf, M: m, Then: one(hit())}),
			one(&Step{K: KSwitch, Cases: []Case{{M: m, Then: one(hit())}}}),
			one(&Step{K: KDrop, M: m, Pct: 100, Label: "matched"}),
		)
	}
	for _, op := range opOrder {
		if op == "glob" {
			e.rekey = globRekey
		}
		e.leafGroup("match/"+op, byOp[op], func([]*Step) []*Rec { return vals })
		e.rekey = nil
	}
	e.globSystematic()

	// AND of two conditions on two fields
	var configs [][]*Step
	red := []Cond{{"", "", "a"}, {"", "str-not", "a"}, {"", "str-start", "a"}, {"", "str-any", ""}, {"", "len-lt", "2"}, {"", "glob", "a*"}, {"", "regex", "b$"}, {"", "str-contain", "b"}}
	for _, c1 := range red {
		for _, c2 := range red {
			c1.Field, c2.Field = "lvl", "msg"
			configs = append(configs, one(&Step{K: KIf, M: Match{c1, c2}, Then: one(hit())}))
		}
	}
	// three conditions
	configs = append(configs, one(&Step{K: KIf, M: Match{{"lvl", "regex", "^a"}, {"msg", "str-contain", "b"}, {"aux", "str-any", ""}}, Then: one(hit())}))
	vals = nil
	for _, lvl := range []string{"", "a", "ab", "b"} {
		for _, msg := range []string{"", "a", "ab", "b"} {
			vals = append(vals, rec(msg, "T0", "X", lvl))
		}
	}
	vals = append(vals, rec("ab", "T0", "", "ab"))
	e.leafGroup("match/and", configs, func([]*Step) []*Rec { return vals })
}

// globRekey splits glob mismatches into classes by features of the pattern and of the value (the matcher is a
// third-party library with several independent defects; one key per feature set keeps them apart).
func globRekey(prog []*Step, in *Rec, key string) string {
	if !strings.HasSuffix(key, "mismatch:match/glob") {
		return key
	}
	var pattern string
	walk(prog, func(s *Step) {
		for _, c := range s.M {
			if c.Op == "glob" {
				pattern = c.Arg
			}
		}
		for _, cs := range s.Cases {
			for _, c := range cs.M {
				if c.Op == "glob" {
					pattern = c.Arg
				}
			}
		}
	})
	value := in.F[fLvl]
	depth, starInBraces := 0, false
	for i := 0; i < len(pattern); i++ {
		switch pattern[i] {
		case '\\':
			i++
		case '{':
			depth++
		case '}':
			depth--
		case '*':
			if depth > 0 {
				starInBraces = true
			}
		}
	}
	multibyte := false
	for i := 0; i < len(value); i++ {
		if value[i] >= 0x80 {
			multibyte = true
		}
	}
	// one class per suspected root cause, by priority
	class := "other"
	switch {
	case starInBraces:
		class = "star-inside-alternatives"
	case strings.Contains(pattern, "?") && multibyte:
		class = "question-mark-vs-multibyte-value"
	case strings.Contains(pattern, "?") && value == "":
		class = "question-mark-vs-empty-value"
	case globLiteralStarLiteral.MatchString(pattern):
		class = "star-between-literals"
	}
	return key + ":" + class
}

var globLiteralStarLiteral = regexp.MustCompile(`^[a-z]+\*+[a-z]+$`)

// globSystematic: every glob made of 1..3 (quick) / 1..4 (thorough) tokens x every value over {a,b,é} up to length 4.
func (e *enumerator) globSystematic() {
	tokens := []string{"a", "b", "*", "?", "[ab]", "{a,b}", "{a*,b}", "**"}
	maxTok := 3
	if e.ctx.Thorough() {
		maxTok = 4
	}
	var vals []*Rec
	var gen func(prefix string, n int)
	gen = func(prefix string, n int) {
		vals = append(vals, rec("m", "T0", "X", prefix))
		if n == 0 {
			return
		}
		for _, c := range []string{"a", "b", "é"} {
			gen(prefix+c, n-1)
		}
	}
	gen("", 4)
	var configs [][]*Step
	var pat func(prefix string, n int)
	pat = func(prefix string, n int) {
		if prefix != "" {
			configs = append(configs, one(&Step{K: KIf, M: Match{{"lvl", "glob", prefix}}, Then: one(hit())}))
		}
		if n == 0 {
			return
		}
		for _, t := range tokens {
			pat(prefix+t, n-1)
		}
	}
	pat("", maxTok)
	e.rekey = globRekey
	e.leafGroup("match/glob", configs, func([]*Step) []*Rec { return vals })
	e.rekey = nil
}

// ---------------------------------------------------------------------------------------------------------------------
// Reduced leaf menu (one or two representative configurations of every leaf transform, sharing fields so that steps
// interact) used for pairs and for leaves under control contexts.

func reducedLeaves() []*Step {
	return []*Step{
		add(Pair{"tag", Tmpl{v("msg")}}),
		add(Pair{"tag", Tmpl{vs("msg", ip(1), ip(-1))}}),
		add(Pair{"msg", Tmpl{lit("<"), v("msg"), lit(">")}}),
		add(Pair{"tag", Tmpl{lit("LONGCONSTANT")}}),
		add(Pair{"aux", Tmpl{v("tag")}}),
		{K: KDel, Keys: []string{"msg"}},
		{K: KDel, Keys: []string{"tag"}},
		{K: KMap, Key: "lvl", Mapping: [][2]string{{"a", "ALPHABETIC"}}, Default: sp("DEFAULTVAL")},
		{K: KHead, Key: "msg", Dest: "tag", Left: "[", Class: "*", Right: "] - ", MaxLen: 100},
		{K: KHead, Key: "msg", Dest: "aux", Left: "", Class: "[a-z]", Right: "=", MaxLen: 10},
		{K: KTail, Key: "msg", Dest: "tag", Left: ":", Class: "[0-9a-f-]", Right: "", MaxLen: 41},
		{K: KTail, Key: "msg", Dest: "aux", Left: "/", Class: "*", Right: "", MaxLen: 100},
		{K: KTrunc, Key: "msg", MaxLen: 3, Suffix: ".."},
		{K: KTrunc, Key: "tag", MaxLen: 2, Suffix: "…"},
		{K: KTrunc, Key: "lvl", MaxLen: 2, Suffix: "."},
		{K: KTrunc, Key: "aux", MaxLen: 1, Suffix: "."},
		{K: KUnesc, Key: "msg"},
		{K: KUnesc, Key: "tag"},
		{K: KReplace, Key: "msg", Pattern: "a+", Repl: "X"},
		{K: KReplace, Key: "tag", Pattern: "(.)", Repl: "$1$1"},
		{K: KExtract, Key: "msg", Pattern: `^(?P<tag>[a-z]+)=(?P<aux>[0-9]*)`},
		{K: KExtract, Key: "msg", Pattern: `(?P<tag>[0-9a-f-]+)$`},
		{K: KDrop, M: Match{{"tag", "str-any", ""}}, Pct: 100, Label: "d1"},
		{K: KDrop, M: Match{{"msg", "len-gt", "12"}}, Pct: 100, Label: "d2"},
	}
}

func (e *enumerator) pairs() {
	leaves := reducedLeaves()
	var vals []*Rec
	for _, msg := range []string{`[cls ] - key=12 a\nb /vh:dead-beef`, "abcdefghijklmnop", "k=1", ""} {
		for _, tag := range []string{"", `T0\tT0T0`} {
			for _, lvl := range []string{"a", "b"} {
				vals = append(vals, rec(msg, tag, "X", lvl))
			}
		}
	}
	// vals index = msg*4 + tag*2 + lvl: stride 1 changes lvl for the second record, stride 4 changes msg
	shapes := []struct {
		name   string
		build  func(a, b *Step) []*Step
		stride int
	}{
		{"seq", func(a, b *Step) []*Step { return []*Step{a, b} }, 1},
		{"if-lvl", func(a, b *Step) []*Step { return []*Step{a, {K: KIf, M: Match{{"lvl", "", "a"}}, Then: one(b)}} }, 1},
		{"if-msglen", func(a, b *Step) []*Step { return []*Step{a, {K: KIf, M: Match{{"msg", "len-gt", "5"}}, Then: one(b)}} }, 4},
	}
	e.ctx.Group("pairs")
	for _, a := range leaves {
		for _, b := range leaves {
			for _, sh := range shapes {
				if e.ctx.Stop() {
					return
				}
				prog := sh.build(a, b)
				pid := compactSteps(prog)
				first, second := a.K.String(), b.K.String()
				scope := "pairs:" + first + "+" + second
				rekey := func(key string) string {
					// a later truncate of a value whose bytes are shared with another field or with the configuration
					if second == "truncate" && strings.HasSuffix(key, "mismatch:"+scope+":field") {
						return strings.TrimSuffix(key, "mismatch:"+scope+":field") + "alias:truncate-overwrites-bytes-shared-after-" + first
					}
					return key
				}
				for vi, v := range vals {
					if e.ctx.Thorough() {
						// every ordered pair of records through one instance
						for _, v2 := range vals {
							e.emitKeyed(scope, "pairs/"+pid+"/"+recID(v)+"/then/"+recID(v2), prog, v, v2, rekey)
						}
						continue
					}
					e.emitKeyed(scope, "pairs/"+pid+"/"+recID(v), prog, v, vals[(vi+sh.stride)%len(vals)], rekey)
				}
			}
		}
	}
}

// ---------------------------------------------------------------------------------------------------------------------
// Leaves under control contexts

// marker appends one letter to aux: the trace of executed marker steps.
func marker(letter byte) *Step {
	return add(Pair{"aux", Tmpl{vb("aux"), lit(string([]byte{letter}))}})
}

type seqBuilder func(next *byte) []*Step // builds a fresh step sequence, taking marker letters from *next

func (e *enumerator) contexts() {
	maxDepth := 2
	if e.ctx.Thorough() {
		maxDepth = 3
	}
	newMark := func(next *byte) *Step {
		m := marker(*next)
		*next++
		return m
	}
	condA := Match{{"lvl", "", "a"}}
	condB := Match{{"lvl", "", "b"}}
	condAny := Match{{"lvl", "str-any", ""}}
	wrappers := []struct {
		name string
		wrap func(inner []*Step, next *byte) *Step
	}{
		{"if", func(inner []*Step, _ *byte) *Step { return &Step{K: KIf, M: condA, Then: inner} }},
		{"sw1", func(inner []*Step, _ *byte) *Step { return &Step{K: KSwitch, Cases: []Case{{condA, inner}}} }},
		{"sw2", func(inner []*Step, next *byte) *Step {
			return &Step{K: KSwitch, Cases: []Case{{condB, one(newMark(next))}, {condAny, inner}}}
		}},
		{"blk", func(inner []*Step, _ *byte) *Step { return &Step{K: KBlock, Steps: inner} }},
	}
	placements := []struct {
		name  string
		place func(s *Step, next *byte) []*Step
	}{
		{"only", func(s *Step, _ *byte) []*Step { return []*Step{s} }},
		{"after", func(s *Step, next *byte) []*Step { return []*Step{newMark(next), s} }},
		{"before", func(s *Step, next *byte) []*Step { return []*Step{s, newMark(next)} }},
	}
	// a context is a list of (placement, wrapper) choices from the inside out, ending with the outermost placement
	type ctxShape struct {
		name  string
		build func(x *Step, next *byte) []*Step
	}
	level0 := []ctxShape{}
	for _, p := range placements {
		p := p
		level0 = append(level0, ctxShape{p.name, func(x *Step, next *byte) []*Step { return p.place(x, next) }})
	}
	var vals []*Rec
	for _, lvl := range []string{"a", "b", "c"} {
		for _, msg := range []string{`[cls ] - key=12 a\nb /vh:dead-beef`, "k=1"} {
			vals = append(vals, rec(msg, `T0\tT0T0`, "X", lvl))
		}
	}
	leaves := reducedLeaves()
	shapes := level0
	for depth := 1; depth <= maxDepth; depth++ {
		var nextShapes []ctxShape
		for _, inner := range shapes {
			for _, w := range wrappers {
				for _, p := range placements {
					inner, w, p := inner, w, p
					nextShapes = append(nextShapes, ctxShape{p.name + "." + w.name + "(" + inner.name + ")", func(x *Step, next *byte) []*Step {
						body := inner.build(x, next)
						return p.place(w.wrap(body, next), next)
					}})
				}
			}
		}
		shapes = nextShapes
		e.ctx.Group(fmt.Sprintf("context/depth%d", depth))
		for _, sh := range shapes {
			if e.ctx.Stop() {
				return
			}
			for li, leaf := range leaves {
				var prog []*Step
				for vi, v := range vals {
					if !e.ctx.Mine() {
						e.ctx.Skip()
						continue
					}
					if prog == nil {
						next := byte('a')
						prog = sh.build(leaf, &next)
					}
					id := fmt.Sprintf("context/%s/leaf%d/%s", sh.name, li, recID(v))
					e.emit("context:"+leaf.K.String(), id, prog, v, vals[(vi+1)%len(vals)])
				}
			}
		}
	}
}

// ---------------------------------------------------------------------------------------------------------------------
// Control nesting: all programs of if / switch / block over positional marker leaves and 100% drops.

// shape trees are immutable and shared; leaves carry only their kind. label() turns one into a program.
type shape struct {
	kind  byte // 'm' marker, 'd' drop, 'i' if, 's' switch, 'b' block
	cond  [2]int8
	kids  [2][]*shape // if/block: kids[0]; switch: kids[0], kids[1] (second case optional)
	ncase int
}

var nestConds = []Match{{{"lvl", "", "a"}}, {{"lvl", "", "b"}}}

func labelShape(seqn []*shape, next *int) []*Step {
	out := make([]*Step, len(seqn))
	for i, sh := range seqn {
		switch sh.kind {
		case 'm':
			out[i] = marker(byte('a' + *next%26))
			if *next >= 26 {
				out[i] = add(Pair{"aux", Tmpl{vb("aux"), lit(fmt.Sprintf("<%d>", *next))}})
			}
			*next++
		case 'd':
			out[i] = &Step{K: KDrop, M: Match{{"lvl", "str-any", ""}}, Pct: 100, Label: fmt.Sprintf("d%d", *next)}
			*next++
		case 'i':
			out[i] = &Step{K: KIf, M: nestConds[sh.cond[0]], Then: labelShape(sh.kids[0], next)}
		case 'b':
			out[i] = &Step{K: KBlock, Steps: labelShape(sh.kids[0], next)}
		case 's':
			st := &Step{K: KSwitch}
			for c := 0; c < sh.ncase; c++ {
				st.Cases = append(st.Cases, Case{M: nestConds[sh.cond[c]], Then: labelShape(sh.kids[c], next)})
			}
			out[i] = st
		}
	}
	return out
}

var leafShapes = []*shape{{kind: 'm'}, {kind: 'd'}}

// controlsOver lists every control step whose bodies are taken from seqs (restricted form: in a two-case switch at most
// one body comes from seqs, the other is a single leaf).
func controlsOver(seqs [][]*shape, restricted bool, f func(*shape)) {
	for _, s := range seqs {
		for c := int8(0); c < 2; c++ {
			f(&shape{kind: 'i', cond: [2]int8{c}, kids: [2][]*shape{s}})
			f(&shape{kind: 's', ncase: 1, cond: [2]int8{c}, kids: [2][]*shape{s}})
		}
		f(&shape{kind: 'b', kids: [2][]*shape{s}})
	}
	if restricted {
		for _, s := range seqs {
			for _, l := range leafShapes {
				ls := []*shape{l}
				for c1 := int8(0); c1 < 2; c1++ {
					for c2 := int8(0); c2 < 2; c2++ {
						f(&shape{kind: 's', ncase: 2, cond: [2]int8{c1, c2}, kids: [2][]*shape{s, ls}})
						if !(len(s) == 1 && (s[0].kind == 'm' || s[0].kind == 'd')) { // both bodies single leaves: already produced above
							f(&shape{kind: 's', ncase: 2, cond: [2]int8{c1, c2}, kids: [2][]*shape{ls, s}})
						}
					}
				}
			}
		}
		return
	}
	for _, s1 := range seqs {
		for _, s2 := range seqs {
			for c1 := int8(0); c1 < 2; c1++ {
				for c2 := int8(0); c2 < 2; c2++ {
					f(&shape{kind: 's', ncase: 2, cond: [2]int8{c1, c2}, kids: [2][]*shape{s1, s2}})
				}
			}
		}
	}
}

// seqsOverRestricted: [t], [leaf, t], [t, leaf] for every step t (at most one control step per sequence).
func seqsOverRestricted(steps []*shape, f func([]*shape)) {
	for _, t := range steps {
		f([]*shape{t})
		isLeaf := t.kind == 'm' || t.kind == 'd'
		for _, l := range leafShapes {
			f([]*shape{l, t})
			if !isLeaf { // [leaf, leaf] is produced once by the line above
				f([]*shape{t, l})
			}
		}
	}
}

func (e *enumerator) nesting() {
	ctx := e.ctx
	var vals []*Rec
	for _, lvl := range []string{"a", "b", "c"} {
		vals = append(vals, rec("m", "T", "", lvl))
	}
	run := func(group string, s []*shape) {
		var prog []*Step
		pid := ""
		for vi, v := range vals {
			if !ctx.Mine() {
				ctx.Skip()
				continue
			}
			if prog == nil {
				n := 0
				prog = labelShape(s, &n)
				pid = compactSteps(prog)
			}
			e.emit("nest", group+"/"+pid+"/"+recID(v), prog, v, vals[(vi+1)%len(vals)])
		}
	}

	// (1) full breadth, one control level: every sequence of one or two steps, each a leaf or a control over leaf sequences
	ctx.Group("nest/depth1-full-breadth")
	var seq0 [][]*shape
	for _, a := range leafShapes {
		seq0 = append(seq0, []*shape{a})
		for _, b := range leafShapes {
			seq0 = append(seq0, []*shape{a, b})
		}
	}
	steps1 := append([]*shape{}, leafShapes...)
	controlsOver(seq0, false, func(s *shape) { steps1 = append(steps1, s) })
	for _, a := range steps1 {
		if ctx.Stop() {
			return
		}
		run("nest1", []*shape{a})
		for _, b := range steps1 {
			run("nest1", []*shape{a, b})
		}
	}

	// (2) restricted breadth (<= 2 steps per sequence and <= 2 cases per switch, at most one control step per sequence
	// and at most one non-leaf case body per switch), depth 2 (quick) / 3 (thorough)
	depth := 2
	if ctx.Thorough() {
		depth = 3
	}
	ctx.Group(fmt.Sprintf("nest/depth%d-restricted", depth))
	stepsD := append([]*shape{}, leafShapes...) // steps of depth 0
	var seqsD [][]*shape
	for d := 0; d < depth-1; d++ {
		seqsD = nil
		seqsOverRestricted(stepsD, func(s []*shape) { seqsD = append(seqsD, s) })
		stepsD = append([]*shape{}, leafShapes...)
		controlsOver(seqsD, true, func(s *shape) { stepsD = append(stepsD, s) })
	}
	// stepsD = steps of depth <= depth-1 (materialised); the last level is streamed
	seqsD = nil
	seqsOverRestricted(stepsD, func(s []*shape) { seqsD = append(seqsD, s) })
	group := fmt.Sprintf("nest%d", depth)
	emitTop := func(t *shape) {
		seqsOverRestricted([]*shape{t}, func(s []*shape) { run(group, s) })
	}
	for _, l := range leafShapes {
		emitTop(l)
	}
	stopped := false
	controlsOver(seqsD, true, func(t *shape) {
		if stopped || ctx.Stop() {
			stopped = true
			return
		}
		emitTop(t)
	})
}

// ---------------------------------------------------------------------------------------------------------------------
// Sampled drop: |dropped - rate*matched/100| <= 1 at every prefix of the matched stream; dropped counted under the
// label, retained under "!label"; records that do not match pass untouched.

func (e *enumerator) sampling() {
	ctx := e.ctx
	const matchedTarget = 300
	condA := Match{{"lvl", "", "a"}}
	wrappers := []struct {
		name string
		wrap func(d *Step) []*Step
	}{
		{"bare", func(d *Step) []*Step { return []*Step{d} }},
		{"if", func(d *Step) []*Step { return one(&Step{K: KIf, M: Match{{"msg", "str-any", ""}}, Then: one(d)}) }},
		{"switch2", func(d *Step) []*Step {
			return one(&Step{K: KSwitch, Cases: []Case{{Match{{"msg", "", "zz"}}, one(&Step{K: KDel, Keys: []string{"aux"}})}, {Match{{"msg", "str-any", ""}}, one(d)}}})
		}},
		{"block", func(d *Step) []*Step { return one(&Step{K: KBlock, Steps: []*Step{marker('m'), d, marker('n')}}) }},
	}
	patterns := []struct {
		name string
		lvls []string
	}{{"all", []string{"a"}}, {"alternate", []string{"a", "b"}}, {"aab", []string{"a", "a", "b"}}, {"baaab", []string{"b", "a", "a", "a", "b"}}}
	ctx.Group("sampling")
	for rate := 1; rate <= 99; rate++ {
		for _, w := range wrappers {
			for _, p := range patterns {
				rate, w, p := rate, w, p
				id := fmt.Sprintf("sampling/%d/%s/%s", rate, w.name, p.name)
				if !ctx.Mine() {
					ctx.Skip()
					continue
				}
				d := &Step{K: KDrop, M: condA, Pct: rate, Label: "sampled"}
				prog := w.wrap(d)
				ctx.Case(id, true, RenderYAML(prog)+"stream lvl pattern: "+strings.Join(p.lvls, ","), func() (string, string) {
					return checkSampling(prog, w.name == "block", rate, p.lvls, matchedTarget)
				})
			}
		}
	}
}

func checkSampling(prog []*Step, blockWrapper bool, rate int, lvls []string, matchedTarget int) (string, string) {
	yamlText := RenderYAML(prog)
	cfgs, err := loadReal(yamlText)
	if err != nil {
		return "harness:generated-program-rejected", err.Error() + "\n" + yamlText
	}
	ri := newRealInstance(cfgs)
	var matched, dropped, droppedBytes, retainedBytes int64
	for i := 0; matched < int64(matchedTarget); i++ {
		in := rec("m", "T", "", lvls[i%len(lvls)])
		in.RawLength = 100 + i%7
		isMatch := in.F[fLvl] == "a"
		var out *Rec
		var wasDropped bool
		if site, detail := seq.Catch(func() { out, wasDropped = ri.run(in) }); site != "" {
			return "panic:" + site, detail
		}
		where := fmt.Sprintf("record #%d (lvl=%s) after %d matched / %d dropped, rate %d%%\n%s", i, in.F[fLvl], matched, dropped, rate, yamlText)
		if !isMatch && wasDropped {
			return "sampling:unmatched-record-dropped", where
		}
		if isMatch {
			matched++
			if wasDropped {
				dropped++
				droppedBytes += int64(in.RawLength)
			} else {
				retainedBytes += int64(in.RawLength)
			}
			if dev := 100*dropped - int64(rate)*matched; dev > 100 || dev < -100 {
				return "sampling:deviation-over-one-record", fmt.Sprintf("dropped=%d of matched=%d at rate %d%%: |dropped - rate*matched/100| = %.2f > 1\n%s", dropped, matched, rate, float64(dev)/100, where)
			}
		}
		// fields: the drop itself edits nothing; in the block wrapper the marker before the drop always runs, the one after
		// it only when the record is retained
		wantAux := ""
		if blockWrapper {
			wantAux = "m"
			if !wasDropped {
				wantAux = "mn"
			}
		}
		if out.F[fMsg] != "m" || out.F[fTag] != "T" || out.F[fLvl] != in.F[fLvl] || out.F[fAux] != wantAux {
			return "sampling:fields", fmt.Sprintf("real %s, expected aux=%q and the rest untouched\n%s", describeRec(out), wantAux, where)
		}
		gotD, _ := ri.counter("sampled")
		gotR, _ := ri.counter("!sampled")
		if gotD != (counter{dropped, droppedBytes}) || gotR != (counter{matched - dropped, retainedBytes}) {
			return "sampling:counter", fmt.Sprintf("label sampled: real %+v want {%d %d}; label !sampled: real %+v want {%d %d}\n%s", gotD, dropped, droppedBytes, gotR, matched-dropped, retainedBytes, where)
		}
	}
	return "", ""
}
