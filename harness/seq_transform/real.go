package main

// The real side: a program is rendered to YAML, unmarshalled through the registered transform config constructors,
// verified with VerifyConfig and instantiated with bsupport.NewTransformsFromConfig, exactly as the agent's loader does.

import (
	"fmt"
	"sort"
	"strings"

	"github.com/relex/gotils/logger"
	"github.com/relex/slog-agent/base"
	"github.com/relex/slog-agent/base/bconfig"
	"github.com/relex/slog-agent/base/bsupport"
	"github.com/relex/slog-agent/base/btest"
	"github.com/relex/slog-agent/util"

	"slogverif/seq"
)

type progDoc struct {
	Transformations []bconfig.LogTransformConfigHolder `yaml:"transformations"`
}

var schema = base.MustNewLogSchema(fieldNames)

// realInstance is one freshly built transform chain with its own counter registry.
type realInstance struct {
	funcs      []base.LogTransformFunc
	lookup     btest.LookupStubCustomerCounterFunc
	lastRecord *base.LogRecord // the live record of the most recent run
}

// loadReal parses and verifies; a non-nil error means the configuration is rejected (out of scope: C16).
func loadReal(yamlText string) ([]bconfig.LogTransformConfigHolder, error) {
	doc := &progDoc{}
	if err := util.UnmarshalYamlString(yamlText, doc); err != nil {
		return nil, err
	}
	if err := bsupport.VerifyTransformConfigs(doc.Transformations, schema, "transformations"); err != nil {
		return nil, err
	}
	return doc.Transformations, nil
}

func newRealInstance(cfgs []bconfig.LogTransformConfigHolder) *realInstance {
	reg, lookup := btest.NewStubLogCustomCounterRegistry()
	return &realInstance{
		funcs:  bsupport.NewTransformsFromConfig(cfgs, schema, logger.Root(), reg),
		lookup: lookup,
	}
}

// freshFields returns heap copies of the values: several transforms overwrite the bytes of a value in place.
func freshFields(vals []string) base.LogFields {
	out := make(base.LogFields, len(vals))
	for i, v := range vals {
		if len(v) == 0 {
			continue
		}
		b := make([]byte, len(v))
		copy(b, v)
		out[i] = util.StringFromBytes(b)
	}
	return out
}

// run executes the chain on a fresh record built from in.
func (ri *realInstance) run(in *Rec) (out *Rec, dropped bool) {
	rec := schema.NewTestRecord1(freshFields(in.F))
	ri.lastRecord = rec
	rec.RawLength = in.RawLength
	rec.Unescaped = in.Unescaped
	res := bsupport.RunTransforms(rec, ri.funcs)
	// copy out immediately (the oracle compares this snapshot); the live record is kept too: records are buffered in batches
	// behind the input-side transforms, so a later record through the same instance must not change an earlier one
	out = &Rec{F: make([]string, len(rec.Fields)), Unescaped: rec.Unescaped, RawLength: rec.RawLength}
	for i, f := range rec.Fields {
		out.F[i] = strings.Clone(f)
	}
	return out, res == base.DROP
}

func (ri *realInstance) counter(label string) (c counter, registered bool) {
	defer func() {
		if recover() != nil {
			c, registered = counter{}, false
		}
	}()
	n, l := ri.lookup(label)
	return counter{n, l}, true
}

// ---------------------------------------------------------------------------------------------------------------------
// Oracle

// tolerance tallies how often an open point of the documentation was reached and which reading the real code follows
// (reported as a note; per worker shard).
var tolerance = map[string]int{}

type outcome struct {
	rec      *Rec
	dropped  bool
	counters map[string]counter
}

// allOutcomes runs the reference for every combination of answers to the open points hit on the way.
// start holds the counters before this record; the result counters are absolute.
func allOutcomes(prog []*Step, in *Rec, start map[string]counter) (outs []outcome, alts []string) {
	var decisions []bool
	names := map[string]bool{}
	for {
		env := &refEnv{counters: map[string]*counter{}, decisions: decisions}
		for k, v := range start {
			c := v
			env.counters[k] = &c
		}
		r := in.clone()
		d := refRun(prog, r, env)
		o := outcome{rec: r, dropped: d, counters: map[string]counter{}}
		for k, v := range env.counters {
			o.counters[k] = *v
		}
		outs = append(outs, o)
		for n := range env.altNames {
			names[n] = true
		}
		decisions = env.decisions[:env.next]
		i := len(decisions) - 1
		for i >= 0 && decisions[i] {
			i--
		}
		if i < 0 {
			break
		}
		decisions = append(append([]bool{}, decisions[:i]...), true)
	}
	for n := range names {
		alts = append(alts, n)
	}
	sort.Strings(alts)
	return outs, alts
}

// diff describes the first difference between the real result and one reference outcome ("" = equal).
func diffOutcome(labels []string, real *Rec, realDropped bool, ri *realInstance, want outcome) (aspect, detail string) {
	if realDropped != want.dropped {
		return "result", fmt.Sprintf("real %s, reference %s", passDrop(realDropped), passDrop(want.dropped))
	}
	for i := range real.F {
		if real.F[i] != want.rec.F[i] {
			return "field", fmt.Sprintf("field %s: real %q, reference %q", fieldNames[i], real.F[i], want.rec.F[i])
		}
	}
	if real.Unescaped != want.rec.Unescaped {
		return "unescaped-flag", fmt.Sprintf("record.Unescaped: real %v, reference %v", real.Unescaped, want.rec.Unescaped)
	}
	for _, l := range labels {
		got, _ := ri.counter(l)
		w := want.counters[l]
		if got != w {
			return "counter", fmt.Sprintf("label %q: real count=%d bytes=%d, reference count=%d bytes=%d", l, got.count, got.length, w.count, w.length)
		}
	}
	return "", ""
}

func passDrop(d bool) string {
	if d {
		return "DROP"
	}
	return "PASS"
}

// checkProgram is the standard case body: fresh configuration objects, fresh instance, fresh record; then a second
// record (in2, normally another value of the menu) through the SAME instance to catch state carried between records.
// keyScope names the family in violation keys.
func checkProgram(keyScope string, prog []*Step, in, in2 *Rec) (string, string) {
	yamlText := RenderYAML(prog)
	cfgs, err := loadReal(yamlText)
	if err != nil {
		return "harness:generated-program-rejected", fmt.Sprintf("the configuration path rejected a program generated as valid: %v\n%s", err, yamlText)
	}
	labels := dropLabels(prog)
	ri := newRealInstance(cfgs)
	counters := map[string]counter{}
	var firstLive *base.LogRecord
	var firstSnap *Rec
	for round, rec := range []*Rec{in, in2} {
		if rec == nil {
			break
		}
		var real *Rec
		var dropped bool
		site, detail := seq.Catch(func() { real, dropped = ri.run(rec) })
		if site == "" && round == 0 {
			firstLive, firstSnap = ri.lastRecord, real
		}
		if site == "" && round == 1 && firstLive != nil {
			// the earlier record is still alive (e.g. buffered in the same batch): it must not have been changed by
			// the later record going through the same transform instances
			for i, f := range firstLive.Fields {
				if i < len(firstSnap.F) && f != firstSnap.F[i] {
					return "earlier-record-changed-by-later-record:" + keyScope, fmt.Sprintf("field %s of the first record was %q after its own transformation and reads %q after a second record went through the same instance\nfirst  %s\nsecond %s\n%s",
						fieldNames[i], firstSnap.F[i], f, describeRec(in), describeRec(rec), yamlText)
				}
			}
		}
		if site != "" {
			key := "panic:" + site
			if round == 1 {
				if k, _ := checkProgram(keyScope, prog, in2, nil); k != "" {
					return "", "" // not an effect of history: the record fails on a fresh instance too and is reported by its own case
				}
				key = "second-record:" + key
			}
			return key, fmt.Sprintf("%s\nrecord %s\n%s", detail, describeRec(rec), yamlText)
		}
		outs, alts := allOutcomes(prog, rec, counters)
		ok := false
		firstAspect, firstDetail := "", ""
		for i, o := range outs {
			a, d := diffOutcome(labels, real, dropped, ri, o)
			if a == "" {
				ok = true
				counters = o.counters
				if len(outs) > 1 && round == 0 {
					k := strings.Join(alts, "+")
					if i == 0 {
						tolerance[k+" / real = first reading"]++
					} else {
						tolerance[k+" / real = alternative reading"]++
					}
				}
				break
			}
			if i == 0 {
				firstAspect, firstDetail = a, d
			}
		}
		if !ok {
			key := "mismatch:" + keyScope + ":" + firstAspect
			if strings.HasPrefix(keyScope, "match/") {
				key = "mismatch:" + keyScope // the carrier (if / switch / drop) only decides how a wrong decision shows
			}
			if round == 1 {
				if k, _ := checkProgram(keyScope, prog, in2, nil); k != "" {
					return "", "" // reported by the record's own case
				}
				key = "second-record:" + key
			}
			tol := ""
			if len(outs) > 1 {
				tol = fmt.Sprintf(" (none of the %d outcomes allowed by the open points %v matches)", len(outs), alts)
			}
			return key, fmt.Sprintf("%s%s\ninput  %s\nreal   %s %s\nref    %s %s\n%s", firstDetail, tol, describeRec(rec),
				describeRec(real), passDrop(dropped), describeRec(outs[0].rec), passDrop(outs[0].dropped), yamlText)
		}
	}
	return "", ""
}

func describeRec(r *Rec) string {
	parts := make([]string, len(r.F))
	for i, f := range r.F {
		parts[i] = fmt.Sprintf("%s=%q", fieldNames[i], clipVal(f))
	}
	return fmt.Sprintf("{%s unescaped=%v}", strings.Join(parts, " "), r.Unescaped)
}

// nontrivialFor: the reference changes something observable for this record (fields, flag, result or counters).
func nontrivialFor(prog []*Step, in *Rec) bool {
	outs, _ := allOutcomes(prog, in, nil)
	o := outs[0]
	if o.dropped || o.rec.Unescaped != in.Unescaped || len(o.counters) > 0 {
		return true
	}
	for i := range in.F {
		if in.F[i] != o.rec.F[i] {
			return true
		}
	}
	return false
}
