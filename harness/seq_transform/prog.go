package main

// Program AST shared by the YAML renderer (input of the real code) and the reference interpreter (ref.go).
// The reference never parses YAML, templates or patterns: it interprets this structure directly.

import (
	"fmt"
	"strconv"
	"strings"
)

// Schema of every generated program.
var fieldNames = []string{"msg", "tag", "aux", "lvl"}

const (
	fMsg = 0
	fTag = 1
	fAux = 2
	fLvl = 3
)

func fieldIndex(name string) int {
	for i, n := range fieldNames {
		if n == name {
			return i
		}
	}
	return -1
}

type Kind int

const (
	KAdd Kind = iota
	KDel
	KMap
	KIf
	KSwitch
	KBlock
	KDrop
	KHead
	KTail
	KTrunc
	KUnesc
	KReplace
	KExtract
)

var kindNames = map[Kind]string{
	KAdd: "addFields", KDel: "delFields", KMap: "mapValue", KIf: "if", KSwitch: "switch", KBlock: "block", KDrop: "drop",
	KHead: "extractHead", KTail: "extractTail", KTrunc: "truncate", KUnesc: "unescape", KReplace: "replace", KExtract: "extract",
}

func (k Kind) String() string { return kindNames[k] }

// TPart is one part of an addFields template: a literal, or a variable with an optional slice.
type TPart struct {
	Lit      string
	Var      string
	Braces   bool // ${name} instead of $name
	HasSlice bool
	A, B     *int // nil = bound omitted
}

type Tmpl []TPart

type Pair struct {
	Dst string
	T   Tmpl
}

// Cond is one "field: !!op arg" line of a match section. Op "" is the untagged default (a plain string = equals).
type Cond struct {
	Field string
	Op    string // "", "str", "str-eq", "str-not", "str-start", "str-end", "str-contain", "str-any", "len-gt", "len-lt", "glob", "regex"
	Arg   string
}

type Match []Cond

type Case struct {
	M    Match
	Then []*Step
}

type Step struct {
	K Kind

	Pairs []Pair   // addFields
	Keys  []string // delFields

	Key  string // mapValue, extractHead/Tail, truncate, unescape, replace, extract
	Dest string // extractHead/Tail

	Mapping [][2]string // mapValue
	Default *string     // mapValue, nil = not configured

	M     Match   // if, drop
	Then  []*Step // if
	Cases []Case  // switch
	Steps []*Step // block

	Pct   int    // drop
	Label string // drop

	Left, Class, Right string // extractHead/Tail: boundaries are literal text, Class is "*" or a bracket expression
	MaxLen             int    // extractHead/Tail, truncate
	Suffix             string // truncate

	Pattern, Repl string // replace, extract
}

func ip(i int) *int { return &i }

// ---------------------------------------------------------------------------------------------------------------------
// Rendering

// yq renders a YAML double-quoted scalar.
func yq(s string) string {
	var b strings.Builder
	b.WriteByte('"')
	for i := 0; i < len(s); i++ {
		c := s[i]
		switch {
		case c == '"':
			b.WriteString(`\"`)
		case c == '\\':
			b.WriteString(`\\`)
		case c == '\n':
			b.WriteString(`\n`)
		case c == '\t':
			b.WriteString(`\t`)
		case c < 0x20 || c == 0x7f:
			panic(fmt.Sprintf("control byte %#x in a generated configuration string", c))
		default:
			b.WriteByte(c)
		}
	}
	b.WriteByte('"')
	return b.String()
}

func (t Tmpl) Text() string {
	var b strings.Builder
	for _, p := range t {
		if p.Var == "" {
			b.WriteString(p.Lit)
			continue
		}
		if !p.Braces && !p.HasSlice {
			b.WriteString("$" + p.Var)
			continue
		}
		b.WriteString("${" + p.Var)
		if p.HasSlice {
			b.WriteByte('[')
			if p.A != nil {
				b.WriteString(strconv.Itoa(*p.A))
			}
			b.WriteByte(':')
			if p.B != nil {
				b.WriteString(strconv.Itoa(*p.B))
			}
			b.WriteByte(']')
		}
		b.WriteByte('}')
	}
	return b.String()
}

// escapeBoundary renders literal boundary text in the pattern language of extractHead/extractTail
// ("note brackets and asterisks need to be escaped").
func escapeBoundary(s string) string {
	var b strings.Builder
	for i := 0; i < len(s); i++ {
		switch s[i] {
		case '[', ']', '*', '\\':
			b.WriteByte('\\')
		}
		b.WriteByte(s[i])
	}
	return b.String()
}

func (s *Step) PatternText() string {
	return escapeBoundary(s.Left) + s.Class + escapeBoundary(s.Right)
}

func renderMatch(b *strings.Builder, ind string, m Match) {
	b.WriteString(ind + "match:\n")
	for _, c := range m {
		b.WriteString(ind + "  " + c.Field + ": ")
		switch c.Op {
		case "":
			b.WriteString(yq(c.Arg))
		case "str-any":
			b.WriteString("!!str-any")
			if c.Arg != "" {
				b.WriteString(" " + yq(c.Arg))
			}
		case "len-gt", "len-lt":
			b.WriteString("!!" + c.Op + " " + c.Arg)
		default:
			b.WriteString("!!" + c.Op + " " + yq(c.Arg))
		}
		b.WriteByte('\n')
	}
}

func renderSteps(b *strings.Builder, ind string, steps []*Step) {
	for _, s := range steps {
		renderStep(b, ind, s)
	}
}

// renderStep writes "- type: ..." at indentation ind.
func renderStep(b *strings.Builder, ind string, s *Step) {
	b.WriteString(ind + "- type: " + s.K.String() + "\n")
	in := ind + "  "
	switch s.K {
	case KAdd:
		b.WriteString(in + "fields:\n")
		for _, p := range s.Pairs {
			b.WriteString(in + "  " + p.Dst + ": " + yq(p.T.Text()) + "\n")
		}
	case KDel:
		b.WriteString(in + "keys: [" + strings.Join(s.Keys, ", ") + "]\n")
	case KMap:
		b.WriteString(in + "key: " + s.Key + "\n")
		b.WriteString(in + "mapping:\n")
		for _, kv := range s.Mapping {
			b.WriteString(in + "  " + yq(kv[0]) + ": " + yq(kv[1]) + "\n")
		}
		if s.Default != nil {
			b.WriteString(in + "default: " + yq(*s.Default) + "\n")
		}
	case KIf:
		renderMatch(b, in, s.M)
		b.WriteString(in + "then:\n")
		renderSteps(b, in+"  ", s.Then)
	case KSwitch:
		b.WriteString(in + "cases:\n")
		for _, c := range s.Cases {
			var mb strings.Builder
			renderMatch(&mb, in+"    ", c.M)
			ms := mb.String()
			// first line of the case carries the list dash
			b.WriteString(in + "  - " + strings.TrimPrefix(ms, in+"    "))
			b.WriteString(in + "    then:\n")
			renderSteps(b, in+"      ", c.Then)
		}
	case KBlock:
		b.WriteString(in + "steps:\n")
		renderSteps(b, in+"  ", s.Steps)
	case KDrop:
		renderMatch(b, in, s.M)
		b.WriteString(in + "percentage: " + strconv.Itoa(s.Pct) + "\n")
		b.WriteString(in + "metricLabel: " + yq(s.Label) + "\n")
	case KHead, KTail:
		b.WriteString(in + "key: " + s.Key + "\n")
		b.WriteString(in + "pattern: " + yq(s.PatternText()) + "\n")
		b.WriteString(in + "maxLen: " + strconv.Itoa(s.MaxLen) + "\n")
		b.WriteString(in + "destKey: " + s.Dest + "\n")
	case KTrunc:
		b.WriteString(in + "key: " + s.Key + "\n")
		b.WriteString(in + "maxLen: " + strconv.Itoa(s.MaxLen) + "\n")
		b.WriteString(in + "suffix: " + yq(s.Suffix) + "\n")
	case KUnesc:
		b.WriteString(in + "key: " + s.Key + "\n")
	case KReplace:
		b.WriteString(in + "key: " + s.Key + "\n")
		b.WriteString(in + "pattern: " + yq(s.Pattern) + "\n")
		b.WriteString(in + "replacement: " + yq(s.Repl) + "\n")
	case KExtract:
		b.WriteString(in + "key: " + s.Key + "\n")
		b.WriteString(in + "pattern: " + yq(s.Pattern) + "\n")
	}
}

// RenderYAML renders a program as the "transformations:" document understood by the real configuration path.
func RenderYAML(prog []*Step) string {
	var b strings.Builder
	b.WriteString("transformations:\n")
	renderSteps(&b, "  ", prog)
	return b.String()
}

// ---------------------------------------------------------------------------------------------------------------------
// Compact, injective text form used in case identifiers.

func compactMatch(m Match) string {
	parts := make([]string, len(m))
	for i, c := range m {
		parts[i] = c.Field + "~" + c.Op + strconv.Quote(c.Arg)
	}
	return "{" + strings.Join(parts, "&") + "}"
}

func compactSteps(steps []*Step) string {
	parts := make([]string, len(steps))
	for i, s := range steps {
		parts[i] = compactStep(s)
	}
	return "[" + strings.Join(parts, ";") + "]"
}

func compactStep(s *Step) string {
	switch s.K {
	case KAdd:
		parts := make([]string, len(s.Pairs))
		for i, p := range s.Pairs {
			parts[i] = p.Dst + "=" + strconv.Quote(p.T.Text())
		}
		return "add(" + strings.Join(parts, ",") + ")"
	case KDel:
		return "del(" + strings.Join(s.Keys, ",") + ")"
	case KMap:
		parts := make([]string, len(s.Mapping))
		for i, kv := range s.Mapping {
			parts[i] = strconv.Quote(kv[0]) + ">" + strconv.Quote(kv[1])
		}
		d := "-"
		if s.Default != nil {
			d = strconv.Quote(*s.Default)
		}
		return "map(" + s.Key + "," + strings.Join(parts, ",") + ",def=" + d + ")"
	case KIf:
		return "if" + compactMatch(s.M) + compactSteps(s.Then)
	case KSwitch:
		parts := make([]string, len(s.Cases))
		for i, c := range s.Cases {
			parts[i] = compactMatch(c.M) + compactSteps(c.Then)
		}
		return "sw(" + strings.Join(parts, "|") + ")"
	case KBlock:
		return "blk" + compactSteps(s.Steps)
	case KDrop:
		return fmt.Sprintf("drop%s%d%%%s", compactMatch(s.M), s.Pct, s.Label)
	case KHead, KTail:
		n := "head"
		if s.K == KTail {
			n = "tail"
		}
		return fmt.Sprintf("%s(%s>%s,%s,%d)", n, s.Key, s.Dest, strconv.Quote(s.PatternText()), s.MaxLen)
	case KTrunc:
		return fmt.Sprintf("trunc(%s,%d,%s)", s.Key, s.MaxLen, strconv.Quote(s.Suffix))
	case KUnesc:
		return "unesc(" + s.Key + ")"
	case KReplace:
		return fmt.Sprintf("repl(%s,%s,%s)", s.Key, strconv.Quote(s.Pattern), strconv.Quote(s.Repl))
	case KExtract:
		return fmt.Sprintf("extr(%s,%s)", s.Key, strconv.Quote(s.Pattern))
	}
	return "?"
}

// walk visits every step of a program in document order.
func walk(steps []*Step, f func(*Step)) {
	for _, s := range steps {
		f(s)
		switch s.K {
		case KIf:
			walk(s.Then, f)
		case KSwitch:
			for _, c := range s.Cases {
				walk(c.Then, f)
			}
		case KBlock:
			walk(s.Steps, f)
		}
	}
}

// dropLabels lists the counter labels a program may touch: "label" for every drop, "!label" for sampled ones.
func dropLabels(prog []*Step) []string {
	var out []string
	seen := map[string]bool{}
	walk(prog, func(s *Step) {
		if s.K != KDrop {
			return
		}
		ls := []string{s.Label}
		if s.Pct < 100 {
			ls = append(ls, "!"+s.Label)
		}
		for _, l := range ls {
			if !seen[l] {
				seen[l] = true
				out = append(out, l)
			}
		}
	})
	return out
}
