package main

// Leaf transforms alone: parameter menus x boundary-biased values.

import (
	"fmt"
	"strings"
	"unicode/utf8"

	"github.com/relex/slog-agent/defs"
)

func lit(s string) TPart   { return TPart{Lit: s} }
func v(name string) TPart  { return TPart{Var: name} }
func vb(name string) TPart { return TPart{Var: name, Braces: true} }
func vs(name string, a, b *int) TPart {
	return TPart{Var: name, Braces: true, HasSlice: true, A: a, B: b}
}

func add(pairs ...Pair) *Step { return &Step{K: KAdd, Pairs: pairs} }

func (e *enumerator) sliceBounds() []*int {
	if e.ctx.Thorough() {
		return []*int{nil, ip(0), ip(1), ip(2), ip(-1), ip(-2), ip(-5), ip(5), ip(6), ip(99), ip(-99)}
	}
	return []*int{nil, ip(0), ip(1), ip(-1), ip(-5), ip(99)}
}

// ---------------------------------------------------------------------------------------------------------------------

func (e *enumerator) addFields() {
	var configs [][]*Step
	sb := e.sliceBounds()
	for _, a := range sb {
		for _, b := range sb {
			configs = append(configs, one(add(Pair{"tag", Tmpl{vs("msg", a, b)}})))                     // single part
			configs = append(configs, one(add(Pair{"tag", Tmpl{lit("<"), vs("msg", a, b), lit(">")}}))) // buffer path
		}
	}
	configs = append(configs,
		one(add(Pair{"tag", Tmpl{lit("K")}})),
		one(add(Pair{"tag", Tmpl{}})),
		one(add(Pair{"tag", Tmpl{v("msg")}})),
		one(add(Pair{"tag", Tmpl{vb("msg")}})),
		one(add(Pair{"tag", Tmpl{lit("x="), v("msg"), lit(";y="), vb("aux"), lit(".")}})),
		one(add(Pair{"tag", Tmpl{v("msg"), v("aux")}})),
		one(add(Pair{"tag", Tmpl{vb("msg"), vb("msg")}})),
		one(add(Pair{"tag", Tmpl{v("tag"), lit("+"), v("msg")}})),
		one(add(Pair{"tag", Tmpl{vs("tag", ip(1), nil)}})),
		one(add(Pair{"msg", Tmpl{lit("task="), v("tag"), lit(" "), v("msg")}})),
		one(add(Pair{"tag", Tmpl{v("msg")}}, Pair{"aux", Tmpl{lit("K")}})),
		one(add(Pair{"tag", Tmpl{vs("msg", ip(0), ip(1))}}, Pair{"aux", Tmpl{vs("msg", ip(-1), nil)}})),
		one(add(Pair{"tag", Tmpl{v("tag"), v("msg")}}, Pair{"aux", Tmpl{v("aux"), v("lvl")}})),
		one(add(Pair{"tag", Tmpl{lit("A")}}, Pair{"aux", Tmpl{lit("B")}}, Pair{"lvl", Tmpl{lit("C")}})),
		// expected to be rejected by the real configuration path (counted, not run)
		e.bad(add(Pair{"tag", Tmpl{lit("5$")}})),
		e.bad(add(Pair{"tag", Tmpl{lit("$$")}})),
		e.bad(add(Pair{"tag", Tmpl{lit("${msg")}})),
		e.bad(add(Pair{"tag", Tmpl{lit("${msg[a:b]}")}})),
		e.bad(add(Pair{"nosuch", Tmpl{lit("x")}})),
		e.bad(add(Pair{"tag", Tmpl{lit("$nosuch")}})),
		e.bad(add()),
	)
	var vals []*Rec
	for _, msg := range []string{"", "a", "ab", "abcde", "abcdef", "héé"} {
		for _, tag := range []string{"", "T0"} {
			for _, aux := range []string{"", "X"} {
				vals = append(vals, rec(msg, tag, aux, "L"))
			}
		}
	}
	e.leafGroup("leaf/addFields", configs, func([]*Step) []*Rec { return vals })

	// The same menu once more with the capacity of the per-instance scratch buffer (defs.InputLogMaxMessageBytes, read by
	// NewTransform) scaled down to 8 bytes: expansions of 7 / 8 / 9 and more bytes sit exactly at, and beyond, the
	// preallocated capacity (the unscaled crossing is in group long/addFields). Cases run synchronously inside Case, so
	// the variable holds for exactly these cases (also on replay).
	saved := defs.InputLogMaxMessageBytes
	defs.InputLogMaxMessageBytes = 8
	e.leafGroup("leaf/addFields[cap8]", configs, func([]*Step) []*Rec { return vals })
	defs.InputLogMaxMessageBytes = saved
}

// ---------------------------------------------------------------------------------------------------------------------

func (e *enumerator) truncate() {
	maxMax := 6
	if e.ctx.Thorough() {
		maxMax = 10
	}
	var configs [][]*Step
	for m := 1; m <= maxMax; m++ {
		for _, suffix := range []string{".", "...", "…"} {
			configs = append(configs, one(&Step{K: KTrunc, Key: "msg", MaxLen: m, Suffix: suffix}))
		}
	}
	configs = append(configs,
		e.bad(&Step{K: KTrunc, Key: "msg", MaxLen: 0, Suffix: "."}),
		e.bad(&Step{K: KTrunc, Key: "msg", MaxLen: -1, Suffix: "."}),
		e.bad(&Step{K: KTrunc, Key: "msg", MaxLen: 3, Suffix: ""}),
		e.bad(&Step{K: KTrunc, Key: "nosuch", MaxLen: 3, Suffix: "."}),
	)
	var texts []string
	ascii := "abcdefghijklmnopqrst"
	for n := 0; n <= maxMax+7; n++ {
		texts = append(texts, ascii[:n])
	}
	for k := 0; k <= 4; k++ {
		texts = append(texts, strings.Repeat("a", k)+"é世😀zzzzzzzz")
		texts = append(texts, strings.Repeat("a", k)+"😀世ézzzzzzzz")
	}
	texts = append(texts, "éééééééééé", "世界世界世界", "😀😀😀😀", "a世b界c世d界", "Лог сообщение", "12世界World",
		// invalid UTF-8 (loose check only)
		"ab\xffcdefghijkl", "\x80\x80\x80\x80\x80\x80\x80\x80\x80\x80\x80\x80", "abc\xe4\xb8zzzzzzzzzz", "\xf0\x9f\x98zzzzzzzzzzz")
	var vals []*Rec
	for _, t := range texts {
		vals = append(vals, rec(t, "T", "X", "L"))
	}
	e.leafGroupCustom("leaf/truncate", configs, func([]*Step) []*Rec { return vals }, func(prog []*Step, in *Rec) func() (string, string) {
		if utf8.ValidString(in.F[fMsg]) {
			return nil
		}
		return func() (string, string) {
			cfgs, err := loadReal(RenderYAML(prog))
			if err != nil {
				return "harness:generated-program-rejected", err.Error()
			}
			out, dropped := newRealInstance(cfgs).run(in) // a panic is reported by the driver with its site
			if why := checkTruncateLoose(prog[0], in, out, dropped); why != "" {
				return "truncate:invalid-utf8-input", why + "\n" + RenderYAML(prog)
			}
			return "", ""
		}
	})
}

// refTruncateLoose is the oracle for values that are not valid UTF-8: no panic (caught by the caller), suffix present,
// length bound, other fields untouched.
func checkTruncateLoose(s *Step, in, out *Rec, dropped bool) string {
	if dropped {
		return "truncate returned DROP"
	}
	for i := range in.F {
		if i != fieldIndex(s.Key) && in.F[i] != out.F[i] {
			return fmt.Sprintf("field %s changed from %q to %q", fieldNames[i], in.F[i], out.F[i])
		}
	}
	vIn, vOut := in.F[fieldIndex(s.Key)], out.F[fieldIndex(s.Key)]
	if len(vIn) <= s.MaxLen+len(s.Suffix) {
		if vIn != vOut {
			return fmt.Sprintf("value within the limit changed from %q to %q", vIn, vOut)
		}
		return ""
	}
	if !strings.HasSuffix(vOut, s.Suffix) || len(vOut) > s.MaxLen+len(s.Suffix) {
		return fmt.Sprintf("oversized value %q became %q: suffix missing or longer than maxLen+suffix", vIn, vOut)
	}
	return ""
}

// ---------------------------------------------------------------------------------------------------------------------

// filler returns n bytes that all belong to the class (per the reference reading of the class), cycling through its
// printable members in a fixed order of preference (letters first, so that members differ from the boundaries).
func filler(class string, n int) string {
	const preferred = "abcdefghijklmnopqrstuvwxyz0123456789ABCXYZ_-*"
	var src []byte
	for i := 0; i < len(preferred); i++ {
		if refClassHas(class, preferred[i]) {
			src = append(src, preferred[i])
		}
	}
	for c := byte(0x21); c < 0x7f && len(src) == 0; c++ {
		if refClassHas(class, c) {
			src = append(src, c)
		}
	}
	if len(src) == 0 {
		panic("filler: class without printable member: " + class)
	}
	var b strings.Builder
	for b.Len() < n {
		b.Write(src)
	}
	return b.String()[:n]
}

// extractClasses is the menu of target wildcards: any byte, plain ranges, negation, trailing / leading hyphen, several
// ranges plus single characters, and the documented escapes (\] \[ \*) inside a class, plain and negated.
func (e *enumerator) extractClasses() (base, extra []string) {
	base = []string{"*", "[a-z]", "[^ ]", "[0-9a-f-]"}
	extra = []string{`[^\]]`, `[a-z\]]`, "[^a-z]", "[-a-z]", "[a-zA-Z0-9_]", `[\*]`, `[^A-Zxmz-]`, `[\[\]]`}
	return
}

func (e *enumerator) extractSpecial() {
	bounds := []string{"", "[", "] - "}
	classes, extraClasses := e.extractClasses()
	maxLens := []int{1, 5, 100}
	extraMaxLens := []int{5, 100}
	if e.ctx.Thorough() {
		bounds = []string{"", "[", "] - ", ":", "ab"}
		maxLens = []int{1, 2, 4, 5, 6, 41, 100}
		extraMaxLens = maxLens
	}
	for _, kind := range []Kind{KHead, KTail} {
		var configs [][]*Step
		for _, l := range bounds {
			for _, c := range classes {
				for _, r := range bounds {
					for _, m := range maxLens {
						configs = append(configs, one(&Step{K: kind, Key: "msg", Dest: "tag", Left: l, Class: c, Right: r, MaxLen: m}))
					}
				}
			}
		}
		for _, l := range bounds {
			for _, c := range extraClasses {
				for _, r := range bounds {
					for _, m := range extraMaxLens {
						configs = append(configs, one(&Step{K: kind, Key: "msg", Dest: "tag", Left: l, Class: c, Right: r, MaxLen: m}))
					}
				}
			}
		}
		configs = append(configs,
			e.bad(&Step{K: kind, Key: "msg", Dest: "tag", Left: "[", Class: "*", Right: "]", MaxLen: 0}),
			e.bad(&Step{K: kind, Key: "msg", Dest: "tag", Left: "abc", Class: "", Right: "", MaxLen: 10}),
			e.bad(&Step{K: kind, Key: "msg", Dest: "tag", Left: "", Class: "[a-z", Right: "", MaxLen: 10}),
			e.bad(&Step{K: kind, Key: "nosuch", Dest: "tag", Left: "[", Class: "*", Right: "]", MaxLen: 10}),
			e.bad(&Step{K: kind, Key: "msg", Dest: "nosuch", Left: "[", Class: "*", Right: "]", MaxLen: 10}),
		)
		e.leafGroup("leaf/"+kind.String(), configs, extractValues)

		// all roles on one field: key == destKey is a configuration the loader accepts ("replace the field by its own
		// label"); the destination is written with the label (see Assumptions). Own group and key scope.
		var same [][]*Step
		for _, l := range bounds {
			for _, c := range append(append([]string{}, classes...), extraClasses[0]) {
				for _, r := range bounds {
					for _, m := range []int{5, 100} {
						same = append(same, one(&Step{K: kind, Key: "msg", Dest: "msg", Left: l, Class: c, Right: r, MaxLen: m}))
					}
				}
			}
		}
		e.leafGroup("leaf/"+kind.String()+"[key=destKey]", same, extractValues)
	}
}

// extractValues builds the value menu of one extractHead/extractTail configuration.
func extractValues(prog []*Step) []*Rec {
	s := prog[0]
	head := s.K == KHead
	far := s.Right
	if !head {
		far = s.Left
	}
	labels := []string{"", "a", "abc", "a c", " ab ", " ", "   ", "\t", "A1", "0af-9", "é", "ab]", "[x"}
	// edge bytes the trimming rule and the class escapes distinguish (all 256 byte values at the edges: groups bytes/*)
	edgeLabels := []string{"\x01a\x1f", "\x00", "a\u00a0", "\u2003a", "\na\r", "\x7fa\x7f", `C:\tmp\job`, "a]b", "a*b", "a_B", `\`}
	if far != "" {
		for _, n := range []int{s.MaxLen - len(far) - 1, s.MaxLen - len(far), s.MaxLen - len(far) + 1, s.MaxLen - 1, s.MaxLen, s.MaxLen + 1} {
			if n > 0 {
				labels = append(labels, filler(s.Class, n))
			}
		}
	} else {
		labels = append(labels, filler(s.Class, s.MaxLen), filler(s.Class, s.MaxLen+1))
	}
	rests := []string{"", "rest", " ", "12"}
	if far != "" {
		rests = append(rests, "x"+far+"y")
	}
	var texts []string
	for _, l := range labels {
		for _, r := range rests {
			if head {
				texts = append(texts, s.Left+l+s.Right+r)
			} else {
				texts = append(texts, r+s.Left+l+s.Right)
			}
		}
	}
	for _, l := range edgeLabels {
		for _, r := range []string{"", "rest"} {
			if head {
				texts = append(texts, s.Left+l+s.Right+r)
			} else {
				texts = append(texts, r+s.Left+l+s.Right)
			}
		}
	}
	texts = append(texts, "", "zzz", "    ", s.Left, s.Right, s.Left+s.Right, s.Left+"abc", "abc"+s.Right, "x"+s.Left+"abc"+s.Right+"rest", "rest"+s.Left+"abc"+s.Right+"x")
	var vals []*Rec
	for _, t := range texts {
		vals = append(vals, rec(t, "T0", "X", "L"))
	}
	return dedupRecs(vals)
}

// ---------------------------------------------------------------------------------------------------------------------

func (e *enumerator) drop() {
	m1 := Match{{Field: "lvl", Op: "", Arg: "a"}}
	m2 := Match{{Field: "lvl", Op: "", Arg: "a"}, {Field: "msg", Op: "str-any"}}
	configs := [][]*Step{
		one(&Step{K: KDrop, M: m1, Pct: 100, Label: "gone"}),
		one(&Step{K: KDrop, M: m2, Pct: 100, Label: "gone"}),
		e.bad(&Step{K: KDrop, M: m1, Pct: 0, Label: "gone"}),
		e.bad(&Step{K: KDrop, M: m1, Pct: 101, Label: "gone"}),
		e.bad(&Step{K: KDrop, M: m1, Pct: -1, Label: "gone"}),
		e.bad(&Step{K: KDrop, M: m1, Pct: 100, Label: ""}),
		e.bad(&Step{K: KDrop, M: Match{}, Pct: 100, Label: "gone"}),
		e.bad(&Step{K: KDrop, M: Match{{Field: "nosuch", Op: "", Arg: "a"}}, Pct: 100, Label: "gone"}),
	}
	var vals []*Rec
	for _, lvl := range []string{"a", "b", "", "aa"} {
		for _, msg := range []string{"", "m"} {
			vals = append(vals, rec(msg, "T", "X", lvl))
		}
	}
	e.leafGroup("leaf/drop100", configs, func([]*Step) []*Rec { return vals })
}
