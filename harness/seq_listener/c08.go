package main

// C08 mode of seq_listener: the real runConnection loop (real NetConnWrapper deadlines, real multiLineReader, real sink
// flushes) on real loopback sockets decides WHEN and WITH WHICH flush function the framer is flushed. seq_framing enumerates
// what the framer does for every placement of Flush(); this part enumerates the situations in which runConnection itself
// chooses the flush: read timeouts inside a line, deadline renewals under continuous traffic, young connections, several
// connections of one listener at the same time, a connection that has outlived a renewal.
//
// Synchronisation is by observation (what the connection's sink was told: Accept / Flush / Close), never by sleeping:
// sleeps only shape the stimulus. Scenarios whose oracle needs a flush-free window use a flush interval of 5 s and measure
// the window; an attempt whose window was too long is repeated, never judged.

import (
	"fmt"
	"net"
	"os"
	"strings"
	"time"

	"github.com/relex/slog-agent/defs"

	"slogverif/seq"
)

const (
	fastInterval = 10 * time.Millisecond // read timeout 10..20 ms: flush ticks are cheap to produce
	slowInterval = 5 * time.Second       // nothing may be flushed during the first 5 s of a connection
	slowWindow   = 4 * time.Second       // an attempt on the slow rig is judged only if it took less than this
)

// ------------------------------------------------------------------------------------------------------------------
// reference (DESIGN.md A.1), written from the documentation

func refIsHead(l string) bool {
	if len(l) < 32 || l[0] != '<' {
		return false
	}
	k := 0
	for k < 3 && l[1+k] >= '0' && l[1+k] <= '9' {
		k++
	}
	return k > 0 && l[1+k] == '>' && l[2+k] == '1' && l[3+k] == ' '
}

// refRecords: a head line plus the non-head lines behind it; the text must start with a head and end with a newline.
func refRecords(text string) []string {
	lines := strings.Split(strings.TrimSuffix(text, "\n"), "\n")
	var recs []string
	for _, l := range lines {
		if refIsHead(l) || len(recs) == 0 {
			recs = append(recs, l)
		} else {
			recs[len(recs)-1] += "\n" + l
		}
	}
	return recs
}

// checkWholeLines is the oracle that holds under ANY flush timing: the units are disjoint, increasing runs of whole lines
// of the stream, every head line is delivered exactly once and starts its unit. (A non-head line that a flush tick
// separated from its head may be attached, delivered on its own or rejected.)
func checkWholeLines(text string, units []string) (string, string) {
	lines := strings.Split(strings.TrimSuffix(text, "\n"), "\n")
	covered := make([]bool, len(lines))
	starts := make([]bool, len(lines))
	next := 0
	for ui, u := range units {
		ul := strings.Split(u, "\n")
		at := -1
		for c := next; c+len(ul) <= len(lines); c++ {
			ok := true
			for j := range ul {
				if lines[c+j] != ul[j] {
					ok = false
					break
				}
			}
			if ok {
				at = c
				break
			}
		}
		if at < 0 {
			return "unit-not-whole-lines-in-order", fmt.Sprintf("unit #%d %q is not a run of whole lines of the stream behind the previous unit", ui, u)
		}
		starts[at] = true
		for j := range ul {
			covered[at+j] = true
		}
		next = at + len(ul)
	}
	for i, l := range lines {
		if !refIsHead(l) {
			continue
		}
		if !covered[i] {
			return "head-lost", fmt.Sprintf("record head %q was never delivered", l)
		}
		if !starts[i] {
			return "records-merged", fmt.Sprintf("record head %q was delivered inside the unit of an earlier line", l)
		}
	}
	return "", ""
}

func sameUnits(a, b []string) bool {
	if len(a) != len(b) {
		return false
	}
	for i := range a {
		if a[i] != b[i] {
			return false
		}
	}
	return true
}

func showUnits(u []string) string {
	p := make([]string, len(u))
	for i, s := range u {
		p[i] = fmt.Sprintf("%q", s)
	}
	return "[" + strings.Join(p, ", ") + "]"
}

// ------------------------------------------------------------------------------------------------------------------
// one client connection and what its sink has seen

type client struct {
	r    *rig
	conn *net.TCPConn
	lg   *connLog
	werr error
}

// openClient connects and waits until runConnection has created the sink of this connection.
func openClient(r *rig) (*client, string, string) {
	r.cap.mu.Lock()
	if r.cap.conns == nil {
		r.cap.conns = map[string]*connLog{}
	}
	before := r.cap.sinks
	r.cap.mu.Unlock()
	conn, err := net.Dial("tcp", r.addr)
	if err != nil {
		return nil, "listener:connect-refused", err.Error()
	}
	cl := &client{r: r, conn: conn.(*net.TCPConn)}
	addr := conn.LocalAddr().String()
	waitFor(func() bool {
		r.cap.mu.Lock()
		defer r.cap.mu.Unlock()
		if lg := r.cap.conns[addr]; lg != nil && lg.serial > before {
			cl.lg = lg
			delete(r.cap.conns, addr)
			return true
		}
		return false
	})
	return cl, "", ""
}

func (c *client) write(s string) {
	if _, err := c.conn.Write([]byte(s)); err != nil && c.werr == nil {
		c.werr = err
	}
}

func (c *client) state() (units []string, flushes int, closed bool) {
	c.r.cap.mu.Lock()
	defer c.r.cap.mu.Unlock()
	return append([]string(nil), c.lg.units...), c.lg.flushes, c.lg.closed
}

func (c *client) flushes() int {
	_, f, _ := c.state()
	return f
}

// awaitTicks waits until the connection's sink has been flushed n more times than `since` (runConnection flushes the sink
// right after every flush of the framer, on a read timeout as well as on a deadline renewal).
func (c *client) awaitTicks(since, n int) {
	waitFor(func() bool { return c.flushes() >= since+n })
}

// finish closes the connection (orderly: everything written is delivered before the FIN) and waits until runConnection has
// closed the sink, i.e. has done its final FlushAll. Returns every unit of the connection.
func (c *client) finish() []string {
	c.conn.Close()
	waitFor(func() bool { _, _, closed := c.state(); return closed })
	u, _, _ := c.state()
	c.r.cap.mu.Lock()
	if len(c.r.cap.units) > 100000 {
		c.r.cap.units = nil
	}
	c.r.cap.mu.Unlock()
	return u
}

// nextID returns a tag that is unique in this process and has a fixed width, so that the streams built from it have the
// same length (and the same structure at every offset) in every case: zeroID is the tag used while enumerating offsets.
func nextID(prefix string) string {
	caseSerial++
	return fmt.Sprintf("%s%06d", prefix, caseSerial)
}

func zeroID(prefix string) string { return prefix + "000000" }

func recN(tag string, n int) string {
	s := fmt.Sprintf("<13>1 2020-01-02T03:04:05Z host app 1 id - %s ", tag)
	for len(s) < n {
		s += "."
	}
	return s
}

func exact(class, what string, got, want []string, extra string) (string, string) {
	if sameUnits(got, want) {
		return "", ""
	}
	return class + ":record-sequence-differs", fmt.Sprintf("%s\n  delivered %s\n  expected  %s%s", what, showUnits(got), showUnits(want), extra)
}

// ------------------------------------------------------------------------------------------------------------------
// scenario: flush ticks inside the stream (fast rig)

// tickStreams: a stream of single-line records (the statement promises identical framing under any timing of the flush)
// and a stream with a multi-line record (whole lines, heads exactly once and first, under any timing).
func tickStreams(id string) (single, multi string) {
	single = recN(id+"-one", 48) + "\n" + recN(id+"-two, the record the tick falls into", 90) + "\n" + recN(id+"-three", 52) + "\n"
	multi = recN(id+"-one", 48) + "\n" + recN(id+"-multi", 50) + "\n" + "  at continuation line 1 of " + id + "\n" + "\tat continuation line 2\n" + recN(id+"-three", 52) + "\n"
	return
}

// runTicks writes text[:cuts[0]], waits until two flush ticks have been observed on the connection (so at least one of them
// fell after the bytes had arrived: the connection was idle for longer than the flush interval in the middle of the stream),
// writes the next piece, ... then closes.
func runTicks(multi bool, cuts []int) (string, string) {
	r := getRig()
	defs.InputFlushInterval = fastInterval
	cl, key, msg := openClient(r)
	if key != "" {
		return key, msg
	}
	single, mtext := tickStreams(nextID("tick"))
	text := single
	if multi {
		text = mtext
	}
	prev := 0
	for _, c := range cuts {
		if c <= prev || c >= len(text) {
			continue
		}
		f0 := cl.flushes()
		cl.write(text[prev:c])
		cl.awaitTicks(f0, 2)
		prev = c
	}
	cl.write(text[prev:])
	units := cl.finish()
	if cl.werr != nil {
		return "listener:connection-broken", fmt.Sprintf("write failed: %v", cl.werr)
	}
	what := fmt.Sprintf("idle periods longer than the flush interval (two flush ticks observed each) at stream offsets %v of %q", cuts, text)
	if !multi {
		return exact("listener-tick", "single-line records must be framed identically under any timing of the periodic flush; "+what, units, refRecords(text), "")
	}
	if k, m := checkWholeLines(text, units); k != "" {
		return "listener-tick:" + k, m + "\n  " + what + "\n  delivered " + showUnits(units)
	}
	return "", ""
}

// runBusy: continuous traffic of single-line records in which EVERY write ends inside a line (piece i = rest of record
// i-1, newline, first k bytes of record i), pieces `gap` apart, until at least three flushes have been observed on the
// connection: with no pause longer than the interval these are the flushes that follow a deadline renewal (a stalled harness
// turns them into read timeouts: the oracle is the same). The records must come out one by one, whole.
func runBusy(k int, gap time.Duration) (string, string) {
	r := getRig()
	defs.InputFlushInterval = fastInterval
	cl, key, msg := openClient(r)
	if key != "" {
		return key, msg
	}
	id := nextID("busy")
	var want []string
	f0 := cl.flushes()
	for i := 0; ; i++ {
		rc := recN(fmt.Sprintf("%s-%04d", id, i), 60)
		piece := rc[:k]
		if i > 0 {
			piece = want[i-1][k:] + "\n" + piece
		}
		want = append(want, rc)
		cl.write(piece)
		if (i >= 12 && cl.flushes() >= f0+3) || i >= 3000 || cl.werr != nil {
			break
		}
		time.Sleep(gap)
	}
	cl.write(want[len(want)-1][k:] + "\n")
	nFlush := cl.flushes() - f0
	units := cl.finish()
	if cl.werr != nil {
		return "listener:connection-broken", fmt.Sprintf("write failed: %v", cl.werr)
	}
	return exact("listener-busy", fmt.Sprintf("%d single-line records written without a pause, every write ending %d bytes into the next record (%d flushes of the connection observed meanwhile): each record must come out whole, once, in order", len(want), k, nFlush), units, want, "")
}

// ------------------------------------------------------------------------------------------------------------------
// scenarios with a flush-free window (slow rig)

// runFirstBytes: a multi-line record is the very first thing a new connection sends, in two segments 5 ms apart (cut at
// any offset). A connection younger than the flush interval has not been idle for an interval and its read deadline has
// not been renewed: no flush pause separates the segments.
func runFirstBytes(nCont, cut int) (string, string) {
	for attempt := 0; attempt < 5; attempt++ {
		r := getRig()
		defs.InputFlushInterval = slowInterval
		start := time.Now()
		cl, key, msg := openClient(r)
		if key != "" {
			return key, msg
		}
		id := nextID("young")
		text := firstBytesText(id, nCont)
		cl.write(text[:cut])
		time.Sleep(5 * time.Millisecond)
		cl.write(text[cut:])
		units := cl.finish()
		if time.Since(start) > slowWindow {
			continue
		}
		if cl.werr != nil {
			return "listener:connection-broken", fmt.Sprintf("write failed: %v", cl.werr)
		}
		return exact("listener-first-bytes", fmt.Sprintf("a multi-line record as the first bytes of a new connection, in two segments 5 ms apart (cut at offset %d), connection closed %v after the connect (flush interval 5 s)", cut, time.Since(start)), units, refRecords(text), "")
	}
	return "", ""
}

func firstBytesText(id string, nCont int) string {
	text := recN(id+"-multi", 50) + "\n"
	for i := 1; i <= nCont; i++ {
		text += fmt.Sprintf("  continuation line %d of %s\n", i, id)
	}
	return text + recN(id+"-next", 48) + "\n"
}

// concurrentText: what connection j sends: two multi-line records and a final single-line record.
func concurrentText(id string, j int) string {
	c := fmt.Sprintf("%s-conn%d", id, j)
	return recN(c+"-first", 50+3*j) + "\n" + "  at " + c + " line 1.1\n" + "\tat " + c + " line 1.2\n" +
		recN(c+"-second", 56) + "\n" + "  at " + c + " line 2.1\n" +
		recN(c+"-last", 48) + "\n"
}

// segments cuts a text per line ("lines"), in the middle of every line so that every segment but the last ends inside a
// line ("mid"), or not at all ("whole").
func segments(text, style string) []string {
	var segs []string
	switch style {
	case "whole":
		return []string{text}
	case "lines":
		for len(text) > 0 {
			i := strings.IndexByte(text, '\n')
			segs = append(segs, text[:i+1])
			text = text[i+1:]
		}
	case "mid":
		prev, off := 0, 0
		for off < len(text) {
			i := strings.IndexByte(text[off:], '\n')
			mid := off + i/2
			if mid > prev {
				segs = append(segs, text[prev:mid])
				prev = mid
			}
			off += i + 1
		}
		segs = append(segs, text[prev:])
	}
	return segs
}

// runConcurrent: n connections of ONE listener are open at the same time, all younger than the flush interval; each sends
// its own multi-line records in segments a millisecond apart, interleaved with the segments of the others. Per connection
// the records must be exactly its own: no flush pause separates any continuation line from its head, and the connections
// share nothing.
func runConcurrent(n int, style, order string, eager bool) (string, string) {
	for attempt := 0; attempt < 5; attempt++ {
		r := getRig()
		defs.InputFlushInterval = slowInterval
		start := time.Now()
		id := nextID("conc")
		cls := make([]*client, n)
		segs := make([][]string, n)
		texts := make([]string, n)
		for j := 0; j < n; j++ {
			texts[j] = concurrentText(id, j)
			st := style
			if style == "mixed" { // connection 0 per line, the others mid-line
				st = "mid"
				if j == 0 {
					st = "lines"
				}
			}
			segs[j] = segments(texts[j], st)
		}
		open := func(j int) (string, string) {
			if cls[j] != nil {
				return "", ""
			}
			cl, key, msg := openClient(r)
			cls[j] = cl
			return key, msg
		}
		if eager { // all connections are established before the first byte is sent
			for j := 0; j < n; j++ {
				if key, msg := open(j); key != "" {
					return key, msg
				}
			}
		}
		send := func(j, i int) (string, string) {
			if key, msg := open(j); key != "" {
				return key, msg
			}
			cls[j].write(segs[j][i])
			time.Sleep(time.Millisecond)
			return "", ""
		}
		var key, msg string
		switch order {
		case "round-robin": // segment i of every connection, then segment i+1 of every connection
			for i := 0; key == ""; i++ {
				any := false
				for j := 0; j < n && key == ""; j++ {
					if i < len(segs[j]) {
						any = true
						key, msg = send(j, i)
					}
				}
				if !any {
					break
				}
			}
		case "nested": // connection 0 sends its first two segments, the others send everything, connection 0 sends the rest
			for i := 0; i < 2 && i < len(segs[0]) && key == ""; i++ {
				key, msg = send(0, i)
			}
			for j := 1; j < n && key == ""; j++ {
				for i := 0; i < len(segs[j]) && key == ""; i++ {
					key, msg = send(j, i)
				}
			}
			for i := 2; i < len(segs[0]) && key == ""; i++ {
				key, msg = send(0, i)
			}
		}
		if key != "" {
			return key, msg
		}
		units := make([][]string, n)
		for j := n - 1; j >= 0; j-- {
			units[j] = cls[j].finish()
		}
		elapsed := time.Since(start)
		if elapsed > slowWindow {
			continue
		}
		for j := 0; j < n; j++ {
			if cls[j].werr != nil {
				return "listener:connection-broken", fmt.Sprintf("write failed: %v", cls[j].werr)
			}
			others := ""
			for o := 0; o < n; o++ {
				if o != j {
					others += fmt.Sprintf("\n  connection %d delivered %s", o, showUnits(units[o]))
				}
			}
			if k, m := exact("listener-concurrent", fmt.Sprintf("connection %d of %d concurrent connections to one listener (segments %s, order %s, all closed %v after the first connect, flush interval 5 s)", j, n, style, order, elapsed), units[j], refRecords(texts[j]), others); k != "" {
				return k, m
			}
		}
		return "", ""
	}
	return "", ""
}

// runDeadlineRenewal: a connection old enough for its read deadline to have been renewed once, then a multi-line record
// split into two TCP segments a few milliseconds apart — far less than the flush interval, so no flush pause separates
// them and the continuation must stay attached. The flush interval is 5 s for this connection (deadline 10 s ahead, renewed
// when less than 5 s remain): after the renewal behind the pause, the next legitimate flush is at least 5 s away. The
// case measures the wall time from the end of the pause to the last observation; if the harness itself stalled for more
// than 3 s the attempt proves nothing and is repeated (never a verdict).
func runDeadlineRenewal(nCont int, cutAfter int) (string, string) {
	for attempt := 0; attempt < 5; attempt++ {
		key, msg, stalled := renewalAttempt(nCont, cutAfter)
		if !stalled {
			return key, msg
		}
	}
	return "", ""
}

func renewalAttempt(nCont int, cutAfter int) (key, msg string, stalled bool) {
	r := getRig()
	defs.InputFlushInterval = slowInterval // stays until the next case sets its own: this connection certainly reads it
	cl, key, msg := openClient(r)
	if key != "" {
		return key, msg, false
	}
	id := nextID("renew")
	first, head, next := rec(id+"-first"), rec(id+"-multi"), rec(id+"-next")
	cl.write(first + "\n")
	time.Sleep(6 * time.Second) // longer than the flush interval: the next read entry renews the deadline
	// The read that returns the first record behind the pause was entered before the pause: the NEXT read entry renews the
	// deadline, and the flush "for deadline update" follows the read after that. Four single-line records, each sent only
	// after the one before the previous was emitted (i.e. after the agent has processed the previous write), guarantee
	// that the renewal AND its flush lie behind us when the split record is sent — by observation, not by sleeping.
	start := time.Now()
	has := func(want string, prefix bool) bool {
		units, _, _ := cl.state()
		for _, u := range units {
			if u == want || (prefix && strings.HasPrefix(u, want)) {
				return true
			}
		}
		return false
	}
	var t [4]string
	for i := range t {
		t[i] = rec(fmt.Sprintf("%s-absorb%d", id, i))
		cl.write(t[i] + "\n")
		if i > 0 {
			prev := t[i-1]
			waitFor(func() bool { return has(prev, false) })
		}
	}
	lines := []string{head}
	for i := 0; i < nCont; i++ {
		lines = append(lines, fmt.Sprintf("  continuation line %d of %s", i+1, id))
	}
	want := strings.Join(lines, "\n")
	seg1 := strings.Join(lines[:cutAfter], "\n") + "\n"
	seg2 := strings.Join(lines[cutAfter:], "\n") + "\n" + next + "\n"
	cl.write(seg1)
	time.Sleep(5 * time.Millisecond)
	cl.write(seg2)
	waitFor(func() bool { return has(head, true) && has(t[3], false) })
	// (the record in question is emitted when `next` arrives behind it; `next` itself at the close, by FlushAll)
	elapsed := time.Since(start)
	units := cl.finish()
	if elapsed > 3*time.Second {
		return "", "", true
	}
	n := 0
	for _, u := range units {
		if u == want {
			n++
		}
	}
	if n != 1 {
		return "flush:between-segments-without-pause", fmt.Sprintf("a multi-line record (%d continuation lines) sent in two segments 5 ms apart on a connection whose read deadline had been renewed came out intact %d times within %v: a flush fell between the segments although the flush interval is 5 s and the renewal flush had already happened\n  delivered %s", nCont, n, elapsed, showUnits(units)), false
	}
	// the single-line records around it (the renewal flush falls among them): each exactly once, in order
	k, m := exact("listener-renewal", "single-line records before and after a read-deadline renewal, then a split multi-line record", units, []string{first, t[0], t[1], t[2], t[3], want, next}, "")
	return k, m, false
}

// runStaleDeadline: the pause between two segments of a multi-line record straddles the instant at which the connection's FIRST
// read deadline (two intervals after the connect) would run out. The shipped wrapper renews a deadline as soon as less than one
// interval remains, so the read entered after segment 1 pushes it two intervals ahead and a pause of about one second — far
// shorter than the 5 s flush interval — can never end in a read timeout: the continuation lines stay attached. (A wrapper that
// renews only expired deadlines lets the stale one fire inside the pause.) Segment 1 goes out 9.4 s after the connect, segment 2
// one second later; an attempt in which the harness stalled (segment 2 more than 4 s behind segment 1) is repeated.
func runStaleDeadline(nCont, cutAfter int) (string, string) {
	for attempt := 0; attempt < 4; attempt++ {
		r := getRig()
		defs.InputFlushInterval = slowInterval
		t0 := time.Now()
		cl, key, msg := openClient(r)
		if key != "" {
			return key, msg
		}
		id := nextID("stale")
		first, head, next := rec(id+"-first"), rec(id+"-multi"), rec(id+"-next")
		cl.write(first + "\n")
		lines := []string{head}
		for i := 0; i < nCont; i++ {
			lines = append(lines, fmt.Sprintf("  continuation line %d of %s", i+1, id))
		}
		want := strings.Join(lines, "\n")
		seg1 := strings.Join(lines[:cutAfter], "\n") + "\n"
		seg2 := strings.Join(lines[cutAfter:], "\n") + "\n" + next + "\n"
		if d := 2*slowInterval - 600*time.Millisecond - time.Since(t0); d > 0 {
			time.Sleep(d)
		}
		w1 := time.Now()
		cl.write(seg1)
		time.Sleep(time.Second)
		cl.write(seg2)
		gap := time.Since(w1)
		units := cl.finish()
		if gap > 4*time.Second {
			continue // the harness stalled: a legitimate flush pause may have separated the segments
		}
		n := 0
		for _, u := range units {
			if u == want {
				n++
			}
		}
		if n != 1 {
			return "flush:stale-deadline-inside-short-pause", fmt.Sprintf("a multi-line record (%d continuation lines) sent in two segments %v apart, the first %v after the connect (flush interval 5 s, first read deadline 10 s after the connect), came out intact %d times: a read timeout fell into a pause shorter than the flush interval\n  delivered %s", nCont, gap, w1.Sub(t0), n, showUnits(units))
		}
		return exact("listener-stale-deadline", "a record, then a split multi-line record around the first read deadline", units, []string{first, want, next}, "")
	}
	return "", ""
}

// afterIdleDefault says whether the after-idle cases are part of the check. They fail on the shipped code (see README:
// the first successful read behind an idle period is followed by a flush "for deadline update" although the timeout
// branch has just flushed - key flush:first-read-after-idle-period-splits-record), so they stay off until that key is
// listed as a known finding or the defect is repaired. VERIF_C08_AFTER_IDLE=1 / =0 overrides.
const afterIdleDefault = true

func afterIdleEnabled() bool {
	switch os.Getenv("VERIF_C08_AFTER_IDLE") {
	case "1":
		return true
	case "0":
		return false
	}
	return afterIdleDefault
}

// runAfterIdle: a connection sends one record and stays idle until its read times out (observed: the sink is flushed; with
// the 5 s interval that is up to 10 s after the connect). Then a multi-line record arrives in two segments 5 ms apart. The
// timeout branch has flushed, the read entered after it renewed the deadline to two intervals ahead, the next renewal is at
// least one interval (5 s) away: no flush pause separates the segments and no periodic flush is due, so the continuation
// lines must stay attached. The window from the observed tick to the close is measured; longer than 3 s: repeated.
func runAfterIdle(nCont, cutAfter int) (string, string) {
	for attempt := 0; attempt < 5; attempt++ {
		r := getRig()
		defs.InputFlushInterval = slowInterval
		cl, key, msg := openClient(r)
		if key != "" {
			return key, msg
		}
		id := nextID("idle")
		first, head, next := recN(id+"-first", 48), recN(id+"-multi", 50), recN(id+"-next", 48)
		f0 := cl.flushes()
		cl.write(first + "\n")
		cl.awaitTicks(f0, 1)
		start := time.Now()
		lines := []string{head}
		for i := 0; i < nCont; i++ {
			lines = append(lines, fmt.Sprintf("  continuation line %d of %s", i+1, id))
		}
		want := strings.Join(lines, "\n")
		cl.write(strings.Join(lines[:cutAfter], "\n") + "\n")
		time.Sleep(5 * time.Millisecond)
		cl.write(strings.Join(lines[cutAfter:], "\n") + "\n" + next + "\n")
		units := cl.finish()
		elapsed := time.Since(start)
		if elapsed > 3*time.Second {
			continue
		}
		n := 0
		for _, u := range units {
			if u == want {
				n++
			}
		}
		if n != 1 {
			return "flush:first-read-after-idle-period-splits-record", fmt.Sprintf("a connection was idle until its read timed out (flush observed); then a multi-line record (%d continuation lines) arrived in two segments 5 ms apart (cut behind line %d) and the connection was closed %v after the observed timeout flush (flush interval 5 s: no periodic flush is due for 5 s). The record came out intact %d times: the first read behind the idle period was followed by a flush\n  delivered %s", nCont, cutAfter, elapsed, n, showUnits(units))
		}
		return exact("listener-after-idle", "a record, an idle period up to the read timeout, then a split multi-line record", units, []string{first, want, next}, "")
	}
	return "", ""
}

// ------------------------------------------------------------------------------------------------------------------

func enumerateC08(ctx *seq.Ctx) {
	thorough := ctx.Thorough()
	// the six slow cases first: one per worker process
	ctx.Group("listener/deadline-renewal")
	for n := 1; n <= 3; n++ {
		for cut := 1; cut <= n; cut++ {
			n, cut := n, cut
			ctx.Case(fmt.Sprintf("renewal/cont%d/cut%d", n, cut), true, fmt.Sprint(n, cut), func() (string, string) { return runDeadlineRenewal(n, cut) })
		}
	}

	// the pause between the two segments straddles the connection's first read deadline (ten seconds each)
	ctx.Group("listener/stale-deadline-inside-short-pause")
	for n := 1; n <= 2; n++ {
		n := n
		ctx.Case(fmt.Sprintf("stale-deadline/cont%d/cut1", n), true, fmt.Sprint(n), func() (string, string) { return runStaleDeadline(n, 1) })
	}

	// a split multi-line record directly behind an idle period that ended in a read timeout (ten seconds each: on the worker
	// processes that follow the renewal cases in the round-robin)
	if afterIdleEnabled() {
		ctx.Group("listener/after-idle-period")
		for n := 1; n <= 2; n++ {
			for cut := 1; cut <= n; cut++ {
				n, cut := n, cut
				ctx.Case(fmt.Sprintf("after-idle/cont%d/cut%d", n, cut), true, fmt.Sprint(n, cut), func() (string, string) { return runAfterIdle(n, cut) })
			}
		}
	}

	// a flush tick (idle for longer than the flush interval) at EVERY offset of a stream of three single-line records and
	// of a stream with a multi-line record: inside the PRI, before and behind the 32nd byte of a line, just before and just
	// behind a newline, inside the very first line of the connection
	single, multi := tickStreams(zeroID("tick"))
	for _, m := range []bool{false, true} {
		text, name := single, "single-line"
		if m {
			text, name = multi, "multi-line"
		}
		ctx.Group("listener/tick-inside-stream/" + name + "/every-offset")
		for c := 1; c < len(text); c++ {
			m, c := m, c
			ctx.Case(fmt.Sprintf("tick/%s/at%d", name, c), true, fmt.Sprint(c), func() (string, string) { return runTicks(m, []int{c}) })
		}
		if thorough {
			ctx.Group("listener/tick-inside-stream/" + name + "/two-offsets")
			for a := 1; a < len(text); a += 5 {
				for b := a + 1; b < len(text); b += 7 {
					m, a, b := m, a, b
					ctx.Case(fmt.Sprintf("tick2/%s/at%d,%d", name, a, b), true, fmt.Sprint(a, b), func() (string, string) { return runTicks(m, []int{a, b}) })
				}
			}
		}
	}

	// continuous traffic, every write ends k bytes into the next record
	ctx.Group("listener/busy-every-write-ends-inside-a-line")
	for _, gap := range []time.Duration{time.Millisecond, 200 * time.Microsecond, 3 * time.Millisecond} {
		for k := 1; k < 60; k++ {
			if gap != time.Millisecond && !thorough && k != 1 && k != 4 && k != 5 && k != 31 && k != 32 && k != 59 {
				continue
			}
			k, gap := k, gap
			ctx.Case(fmt.Sprintf("busy/k%d/gap%v", k, gap), true, fmt.Sprint(k, gap), func() (string, string) { return runBusy(k, gap) })
		}
	}

	// a split multi-line record as the first bytes of a connection: every offset of the record
	ctx.Group("listener/first-bytes-of-a-connection")
	for n := 1; n <= 3; n++ {
		text := firstBytesText(zeroID("young"), n)
		recLen := strings.LastIndexByte(text[:len(text)-1], '\n') + 1 // up to and including the newline of the last continuation line
		for cut := 1; cut <= recLen; cut++ {
			if n != 2 && !thorough && cut%8 != 0 && cut != 50 && cut != 51 {
				continue
			}
			n, cut := n, cut
			ctx.Case(fmt.Sprintf("first-bytes/cont%d/cut%d", n, cut), true, fmt.Sprint(n, cut), func() (string, string) { return runFirstBytes(n, cut) })
		}
	}

	// several connections of one listener at the same time
	ctx.Group("listener/concurrent-connections")
	for _, n := range []int{2, 3, 4} {
		for _, style := range []string{"lines", "mid", "mixed", "whole"} {
			for _, order := range []string{"round-robin", "nested"} {
				for _, eager := range []bool{true, false} {
					n, style, order, eager := n, style, order, eager
					ctx.Case(fmt.Sprintf("concurrent/%dconns/%s/%s/eager=%v", n, style, order, eager), true, "", func() (string, string) {
						return runConcurrent(n, style, order, eager)
					})
				}
			}
		}
	}
}

func mainC08() {
	seq.Main(&seq.Config{
		Property: "C08",
		Level:    "exploration",
		Rule: "listener level: the real runConnection loop on real loopback sockets (real NetConnWrapper deadlines, real framer, sink Accept/Flush/Close observed per connection). " +
			"(1) flush interval 10 ms: an idle period longer than the interval (two flush ticks observed) at EVERY byte offset of a stream of three single-line records [oracle: exactly the three records] and of a stream with a multi-line record " +
			"[oracle: whole lines in order, every head once and first in its unit]; thorough: two idle periods; (2) interval 10 ms, continuous traffic of single-line records in which every write ends k bytes into the next record, k = 1..59, " +
			"pieces 0.2/1/3 ms apart, until three flushes of the connection were observed [exactly the records]; (3) interval 5 s: a multi-line record of 1..3 continuation lines as the FIRST bytes of a connection, cut at every offset into two segments 5 ms apart " +
			"[exactly the records]; (4) interval 5 s: 2, 3 and 4 concurrent connections of one listener sending interleaved multi-line records, segments per line / ending inside lines / mixed / whole, round-robin or nested order, " +
			"connected up-front or lazily [per connection exactly its own records]; (5) interval 5 s: a connection that has outlived one read-deadline renewal (6 s idle) receives a multi-line record of 1..3 continuation lines " +
			"split at every line boundary into two segments 5 ms apart [the record is ONE unit, all records of the connection exactly once in order]. Attempts of (3)-(5) whose measured window exceeded 4 s (3 s) are repeated, never judged. " +
			"(6, enumerated only when enabled - VERIF_C08_AFTER_IDLE=1 or afterIdleDefault, see README: fails on the shipped code) interval 5 s: a split multi-line record directly behind an idle period that ended in an observed read timeout",
		Assumptions: []string{
			"real threads and sockets: the product of stream shapes x cut positions x connection shapes is enumerated, the thread schedule is what the runtime produces",
			"complements seq_framing (all fragmentations x all flush placements on the framer): this part decides when runConnection flushes (only on a read timeout or a deadline renewal, per connection) and with which flush function (the partial last line is kept)",
			"sleeps shape the stimulus only; every wait is for an observation at the connection's sink and has no timeout (a case that never completes is reported by the stalled-case watchdog)",
			"a connection younger than the flush interval (5 s) cannot legitimately have been flushed: its read deadline is renewed only when less than one interval of the two-interval timeout remains (NetConnWrapper: 'timeouts could be anything from specified timeout values to double of them')",
			"a non-head line that a flush pause separated from its head may be attached, delivered on its own or rejected (multi-line stream under (1))",
		},
		Enumerate:  enumerateC08,
		MaxProcs:   6,
		WorkerArgs: []string{"-prop", "C08"},
	})
}
