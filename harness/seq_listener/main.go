// Command seq_listener is the listener level of C07: the real tcplistener (real sockets on the loopback interface, real
// accept loop, real runConnection goroutines with the real multiLineReader) receives, per case, one connection that sends
// a well-formed record, a bad stretch and another well-formed record and then disconnects in one of several ways
// (orderly close, half-close then close, reset), optionally while a second connection is open; afterwards a NEW connection
// must still be accepted and served. The agent must neither crash (the worker process dies: attributed to the case) nor wedge
// (the case never completes: stalled-case watchdog).
//
// This part runs on real threads and real sockets, not under the cooperative scheduler: what is enumerated exhaustively
// is the product of bad inputs x disconnect kinds x write fragmentations x concurrency shapes, not the thread schedules.
package main

import (
	"bytes"
	"flag"
	"fmt"
	"net"
	"os"
	"runtime"
	"strings"
	"sync"
	"time"

	"github.com/relex/gotils/channels"
	"github.com/relex/gotils/logger"
	"github.com/relex/slog-agent/base"
	"github.com/relex/slog-agent/defs"
	"github.com/relex/slog-agent/input/syslogprotocol"
	"github.com/relex/slog-agent/input/tcplistener"

	"slogverif/seq"
)

type capture struct {
	mu    sync.Mutex
	units [][]byte
	sinks int
	open  int
	conns map[string]*connLog // C08 mode only: what each connection's sink received, by client address
}

// connLog is everything the sink of one connection was told (guarded by capture.mu).
type connLog struct {
	serial  int      // value of capture.sinks when the sink was created
	units   []string // Accept calls, in order
	flushes int      // Flush calls: runConnection flushes the sink after every flush of the framer
	closed  bool
}

type capSink struct {
	c  *capture
	lg *connLog
}

func (c *capture) NewSink(addr string, _ base.ClientNumber) base.MessageReceiverSink {
	c.mu.Lock()
	c.sinks++
	c.open++
	var lg *connLog
	if c.conns != nil {
		lg = &connLog{serial: c.sinks}
		c.conns[addr] = lg
	}
	c.mu.Unlock()
	return &capSink{c, lg}
}

func (s *capSink) Accept(m []byte) {
	s.c.mu.Lock()
	s.c.units = append(s.c.units, append([]byte(nil), m...))
	if s.lg != nil {
		s.lg.units = append(s.lg.units, string(m))
	}
	s.c.mu.Unlock()
}

func (s *capSink) Flush() {
	if s.lg != nil {
		s.c.mu.Lock()
		s.lg.flushes++
		s.c.mu.Unlock()
	}
}

func (s *capSink) Close() {
	s.c.mu.Lock()
	s.c.open--
	if s.lg != nil {
		s.lg.closed = true
	}
	s.c.mu.Unlock()
}

// contains counts the units that hold the text anywhere
func (c *capture) contains(want string) int {
	c.mu.Lock()
	defer c.mu.Unlock()
	n := 0
	for _, u := range c.units {
		if bytes.Contains(u, []byte(want)) {
			n++
		}
	}
	return n
}

func (c *capture) count(want string, exact bool) int {
	c.mu.Lock()
	defer c.mu.Unlock()
	n := 0
	for _, u := range c.units {
		if (exact && string(u) == want) || (!exact && bytes.HasPrefix(u, []byte(want))) {
			n++
		}
	}
	return n
}

type rig struct {
	cap  *capture
	addr string
	stop *channels.SignalAwaitable
	lsn  base.LogListener
}

var theRig *rig

func getRig() *rig {
	if theRig != nil {
		return theRig
	}
	defs.InputFlushInterval = 10 * time.Millisecond
	c := &capture{}
	stop := channels.NewSignalAwaitable()
	lsn, addr, err := tcplistener.NewTCPLineListener(logger.Root(), "127.0.0.1:0", syslogprotocol.TestRecordStart, c, stop)
	if err != nil {
		panic(err)
	}
	lsn.Start()
	theRig = &rig{cap: c, addr: addr, stop: stop, lsn: lsn}
	return theRig
}

func rec(tag string) string {
	s := fmt.Sprintf("<13>1 2020-01-02T03:04:05Z host app 1 id - %s", tag)
	for len(s) < 48 {
		s += "."
	}
	return s
}

type badKind struct{ name, data string }

func kinds() []badKind {
	return []badKind{
		{"none", ""},
		{"garbage-line", "this is not a syslog record at all, just text\n"},
		{"empty-lines", "\n\n\n"},
		{"binary", "\x00\x01\xff\xfe<13>\x00\n"},
		{"short-head", "<13>1 short\n"},
		{"lt-only", "<\n"},
		{"nul-run", strings.Repeat("\x00", 300) + "\n"},
		{"invalid-utf8-record", "<13>1 2020-01-02T03:04:05Z ho\xffst app 1 id - invalid utf8 in header\n"},
		{"nil-timestamp", "<13>1 - host app 1 id - nil timestamp\n"},
		{"huge-pri", "<99999999999>1 2020-01-02T03:04:05Z host app 1 id - x\n"},
		{"blank-class", "<13>1 2020-01-02T03:04:05Z host app 1 id - [ ] - x\n"},
		{"long-line-64k", strings.Repeat("L", 65536) + "\n"},
		{"many-short-lines", strings.Repeat("x\n", 5000)},
		{"cr-lf", "garbage with carriage return\r\n"},
	}
}

// waitFor blocks until cond holds. There is deliberately no timeout: a case that never completes is a wedged agent and is
// reported by the stalled-case watchdog of the enumeration driver, attributed to this case.
func waitFor(cond func() bool) {
	for !cond() {
		time.Sleep(2 * time.Millisecond)
	}
}

func writeFragments(conn net.Conn, data []byte, style string) error {
	switch style {
	case "whole":
		_, err := conn.Write(data)
		return err
	case "lines":
		for len(data) > 0 {
			i := bytes.IndexByte(data, '\n')
			if i < 0 {
				i = len(data) - 1
			}
			if _, err := conn.Write(data[:i+1]); err != nil {
				return err
			}
			data = data[i+1:]
		}
	case "halves-with-pause":
		h := len(data) / 2
		if _, err := conn.Write(data[:h]); err != nil {
			return err
		}
		time.Sleep(25 * time.Millisecond) // longer than the flush interval: a flush tick falls inside the stream
		_, err := conn.Write(data[h:])
		return err
	case "bytes-37":
		for len(data) > 0 {
			n := 37
			if n > len(data) {
				n = len(data)
			}
			if _, err := conn.Write(data[:n]); err != nil {
				return err
			}
			data = data[n:]
		}
	}
	return nil
}

var caseSerial int

func runCase(k badKind, disconnect, style string, concurrent bool) (string, string) {
	r := getRig()
	caseSerial++
	id := fmt.Sprintf("case%d", caseSerial)
	s1, s2, s3, s4 := rec(id+"-first"), rec(id+"-second"), rec(id+"-other-conn"), rec(id+"-after")
	connA, err := net.Dial("tcp", r.addr)
	if err != nil {
		return "listener:connect-refused", fmt.Sprintf("cannot connect before the bad input: %v", err)
	}
	var connC net.Conn
	if concurrent {
		connC, err = net.Dial("tcp", r.addr)
		if err != nil {
			return "listener:connect-refused", fmt.Sprintf("cannot open a second connection: %v", err)
		}
		connC.Write([]byte(s3 + "\n"))
	}
	stream := []byte(s1 + "\n" + k.data + s2 + "\n")
	if disconnect == "reset-after-read" {
		stream = stream[:len(stream)-1]
	}
	werr := writeFragments(connA, stream, style)
	if concurrent {
		// connections are served side by side: the other connection's record (written and followed by a flush interval
		// of silence) comes out while this connection is still open (a listener serving one connection at a time never
		// gets there: the case stalls and the watchdog reports it)
		waitFor(func() bool { return r.cap.count(s3, true) >= 1 })
	}
	switch disconnect {
	case "close":
		connA.Close()
	case "half-close":
		connA.(*net.TCPConn).CloseWrite()
		time.Sleep(2 * time.Millisecond)
		connA.Close()
	case "reset":
		connA.(*net.TCPConn).SetLinger(0)
		connA.Close()
	case "reset-after-read":
		// S2 is written WITHOUT its newline, so it stays in the framer; once S1 is out the single loopback segment, S2 included,
		// has been read by the agent. TCP can only discard unread data: a reset now must not lose what was already read.
		waitFor(func() bool { return r.cap.count(s1, false) >= 1 })
		connA.(*net.TCPConn).SetLinger(0)
		connA.Close()
	case "cut-mid-record":
		connA.Write([]byte("<13>1 2020-01-02T03:04:05Z host app 1 id - unfinished reco"))
		connA.Close()
	}
	if concurrent {
		connC.Close()
	}
	// a NEW connection is still accepted and served
	connB, err := net.Dial("tcp", r.addr)
	if err != nil {
		return "listener:stopped-accepting", fmt.Sprintf("after the bad input and the disconnect (%s) a new connection is refused: %v", disconnect, err)
	}
	connB.Write([]byte(s4 + "\n"))
	connB.Close()
	waitFor(func() bool { return r.cap.count(s4, true) >= 1 })
	if concurrent {
		waitFor(func() bool { return r.cap.count(s3, true) >= 1 })
	}
	if disconnect != "reset" && disconnect != "reset-after-read" && werr == nil {
		// an orderly close delivers everything that was written: the records around the bad input must arrive
		waitFor(func() bool { return r.cap.count(s1, false) >= 1 })
		if len(k.data) < 40000 { // behind an over-limit line the known stream-level finding applies (seq_stream decides it)
			// an unfinished last line (connection cut mid-record) is attached to the record in front of it, like any
			// continuation line: then S2 must come out with its own bytes first, otherwise byte-identical
			exact := disconnect != "cut-mid-record"
			waitFor(func() bool { return r.cap.count(s2, exact) >= 1 })
		}
	}
	if n := r.cap.count(s4, true); n != 1 {
		return "listener:later-record-duplicated", fmt.Sprintf("the record of the later connection came out %d times", n)
	}
	for _, x := range []struct{ what, text string }{{"first", s1}, {"second", s2}, {"other connection's", s3}} {
		if n := r.cap.count(x.text, true); n > 1 {
			return "listener:record-duplicated", fmt.Sprintf("the %s record came out %d times", x.what, n)
		}
	}
	// every connection of this case is closed: the agent closes every sink it opened (a stalled case = a sink never closed)
	waitFor(func() bool { r.cap.mu.Lock(); defer r.cap.mu.Unlock(); return r.cap.open == 0 })
	if disconnect == "reset-after-read" && werr == nil {
		// the connection's sink is closed, so the agent is through with it: what it had read before the reset must have come
		// out (S2 had no newline yet: alone, or attached to the record in front of it like any unfinished last line)
		if n := r.cap.contains(s2); n != 1 {
			return "listener:record-already-read-lost-at-reset", fmt.Sprintf("the second record had been read by the agent (it arrived in the same segment as the first, which was already out) when the connection was reset; it came out %d times", n)
		}
	}
	if r.stop.Peek() {
		return "listener:stopped", "the listener stopped by itself"
	}
	r.cap.mu.Lock()
	if len(r.cap.units) > 100000 {
		r.cap.units = nil
	}
	r.cap.mu.Unlock()
	return "", ""
}

func countFDs() int {
	ents, err := os.ReadDir("/proc/self/fd")
	if err != nil {
		return -1
	}
	return len(ents)
}

// runDisconnectCycles: N sequential clients each send one record and disconnect. The agent must close its side of every
// connection: the number of open descriptors of the process must not grow with the number of disconnects (otherwise the
// accept loop dies at the descriptor limit and the port stays closed).
func runDisconnectCycles(disconnect string) (string, string) {
	r := getRig()
	const n = 60
	g0 := runtime.NumGoroutine()
	before := countFDs()
	if before < 0 {
		return "", "" // no /proc: not observable here
	}
	for i := 0; i < n; i++ {
		caseSerial++
		s := rec(fmt.Sprintf("cycle%d-%d", caseSerial, i))
		conn, err := net.Dial("tcp", r.addr)
		if err != nil {
			return "listener:stopped-accepting", fmt.Sprintf("connection %d of %d sequential clients refused: %v (open descriptors %d, at start %d)", i+1, n, err, countFDs(), before)
		}
		conn.Write([]byte(s + "\n"))
		if disconnect == "reset" {
			conn.(*net.TCPConn).SetLinger(0)
		}
		conn.Close()
		if disconnect != "reset" {
			waitFor(func() bool { return r.cap.count(s, true) >= 1 })
		}
	}
	// the sockets are closed by a goroutine per connection: give them time (generous: a minute) before counting
	growth := 0
	for i := 0; i < 6000; i++ {
		growth = countFDs() - before
		if growth < 10 {
			break
		}
		time.Sleep(10 * time.Millisecond)
	}
	if growth < 10 {
		// ... and the goroutines serving a connection (reader, closer) end with it
		gg := 0
		for i := 0; i < 6000; i++ {
			gg = runtime.NumGoroutine() - g0
			if gg < 10 {
				return "", ""
			}
			time.Sleep(10 * time.Millisecond)
		}
		return "listener:goroutine-leak-per-disconnect", fmt.Sprintf("after %d sequential clients that disconnected (%s) the process runs %d more goroutines than before, still a minute later", n, disconnect, gg)
	}
	return "listener:descriptor-leak-per-disconnect", fmt.Sprintf("after %d sequential clients that disconnected (%s) the process holds %d more open descriptors than before, still a minute later: the agent does not close its side of the connections", n, disconnect, growth)
}

var flagProp = flag.String("prop", "C07", "C07: bad input and disconnects; C08: framing vs flush timing on a long-lived connection")

func enumerate(ctx *seq.Ctx) {
	ctx.Group("listener/disconnect-cycles")
	for _, d := range []string{"close", "reset"} {
		d := d
		ctx.Case("cycles/"+d, true, d, func() (string, string) { return runDisconnectCycles(d) })
	}
	for _, k := range kinds() {
		ctx.Group("listener/" + k.name)
		for _, disc := range []string{"close", "half-close", "reset", "reset-after-read", "cut-mid-record"} {
			for _, style := range []string{"whole", "lines", "halves-with-pause", "bytes-37"} {
				if style == "bytes-37" && len(k.data) > 20000 {
					continue
				}
				if disc == "reset-after-read" && (style != "whole" || len(k.data) > 20000) {
					continue // only a single small write is known to have been read completely once its first record is out
				}
				for _, conc := range []bool{false, true} {
					k, disc, style, conc := k, disc, style, conc
					ctx.Case(fmt.Sprintf("%s/%s/%s/concurrent=%v", k.name, disc, style, conc), k.name != "none", k.name, func() (string, string) {
						return runCase(k, disc, style, conc)
					})
				}
			}
		}
	}
}

func main() {
	logger.SetLogLevel(logger.ErrorLevel)
	flag.Parse()
	if *flagProp == "C08" {
		mainC08()
		return
	}
	seq.Main(&seq.Config{
		Property: "C07",
		Level:    "exploration",
		Rule: "listener level on real loopback sockets: 14 bad stretches between two well-formed records x disconnect kinds {close, half-close, reset, cut mid-record} x write fragmentations " +
			"{whole, per line, halves with a pause longer than the flush interval, 37-byte pieces} x {alone, with a second open connection}; then a NEW connection must be accepted and served; " +
			"oracle: process alive (a crash kills the worker and is attributed), no wedge (stalled-case watchdog), later connection served exactly once, records around the bad input delivered after an orderly close",
		Assumptions: []string{
			"runs on real threads and sockets: the product of inputs x disconnects x fragmentations is enumerated, thread schedules are whatever the runtime produces",
			"after a reset TCP may discard unread data: only the later connection is required then",
			"no wall-clock oracle: a case waits without timeout; only the 5-minute stalled-case watchdog decides 'wedged'",
		},
		Enumerate: enumerate,
		MaxProcs:  4,
	})
}
