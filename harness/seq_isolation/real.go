// "Real pipeline" part of seq_isolation: the orchestrator is started by Config.StartOrchestrator, so that everything behind
// the parser sink is the shipped code — orchestrator sink, pipeline channel, the LogProcessingWorker goroutine (onInput /
// onTick / onStop are NOT repeated by the harness here), obase.PrepareSequentialPipeline, the hybrid buffer between chunk
// maker and consumer. Only the consumer is the harness's (bconfig.PipelineArgs.NewConsumerOverride, the documented test seam).
// The schedule is given by real time (flush interval of 2 ms and pauses of the feeding goroutine), not by the harness: the
// verdict never depends on it, every schedule must give every record its own output.
package main

import (
	"bytes"
	"fmt"
	"os"
	"path/filepath"
	"runtime"
	"sort"
	"strings"
	"sync"
	"time"

	"github.com/relex/gotils/channels"
	"github.com/relex/gotils/logger"
	"github.com/relex/gotils/promexporter/promreg"
	"github.com/relex/slog-agent/base"
	"github.com/relex/slog-agent/base/bconfig"
	"github.com/relex/slog-agent/base/bsupport"
	"github.com/relex/slog-agent/defs"

	"slogverif/hutil"
	"slogverif/seq"
)

type realConsumer struct {
	cap     *realCapture
	output  string
	args    base.ChunkConsumerArgs
	stopped *channels.SignalAwaitable
}

type realChunk struct {
	output string
	id     string
	data   []byte // as received from the buffer, not copied
	snap   []byte
	dirID  string // ID of the queue directory, for chunks read back from disk
	onDisk bool
}

type realCapture struct {
	mu     sync.Mutex
	chunks []realChunk
}

func (c *realCapture) newConsumer(_ logger.Logger, name string, _ base.ChunkDecoder, args base.ChunkConsumerArgs) base.ChunkConsumer {
	return &realConsumer{cap: c, output: name, args: args, stopped: channels.NewSignalAwaitable()}
}

func (cc *realConsumer) Start()                      { go cc.run() }
func (cc *realConsumer) Stopped() channels.Awaitable { return cc.stopped }

func (cc *realConsumer) run() {
	defer func() {
		cc.stopped.Signal()
		cc.args.OnFinished()
	}()
	for {
		select {
		case chunk, ok := <-cc.args.InputChannel:
			if !ok {
				return
			}
			cc.cap.mu.Lock()
			cc.cap.chunks = append(cc.cap.chunks, realChunk{output: cc.output, id: chunk.ID, data: chunk.Data, snap: append([]byte(nil), chunk.Data...)})
			cc.cap.mu.Unlock()
			cc.args.OnChunkConsumed(chunk)
		case <-cc.args.InputClosed.Channel():
			return
		}
	}
}

// realObsReceiver / realObsSink: the observer at the base.MultiSinkBufferReceiver seam in front of the shipped orchestrator.
// It cannot look into the worker goroutine; it checks what is handed over and overwrites the batch slice after the call.
// A batch that is certainly corrupt is reported and NOT handed on (the shipped worker would end the process by a panic in
// its own goroutine, e.g. "negative reference count", which is still a verdict but costs the results of the worker process).
type realObsReceiver struct {
	real             base.MultiSinkBufferReceiver
	alloc            *base.LogAllocator
	pidLoc           base.LogFieldLocator
	nfields          int
	failKey, failMsg string
}

type realObsSink struct {
	o    *realObsReceiver
	real base.BufferReceiverSink
}

const poisonMarker = "POISON"

func (o *realObsReceiver) NewSink(addr string, num base.ClientNumber) base.BufferReceiverSink {
	return &realObsSink{o: o, real: o.real.NewSink(addr, num)}
}

func (o *realObsReceiver) fail(key, msg string) {
	if o.failKey == "" {
		o.failKey, o.failMsg = key, msg
	}
}

func (s *realObsSink) Tick()  { s.real.Tick() }
func (s *realObsSink) Close() { s.real.Close() }

func (s *realObsSink) Accept(buffer []*base.LogRecord) {
	o := s.o
	seen := map[*base.LogRecord]bool{}
	corrupt := false
	for _, record := range buffer {
		if seen[record] {
			o.fail("alias:record-delivered-twice", fmt.Sprintf("the parser sink handed over one batch that holds the same *LogRecord twice (it reads marker %q)", o.pidLoc.Get(record.Fields)))
			corrupt = true
		}
		seen[record] = true
		// the parser sets RawLength to the length of the line (>= 32); Release resets it to 0
		if record.RawLength == 0 {
			o.fail("alias:released-record-handed-over", "the parser sink handed over a *LogRecord whose RawLength is 0: it was released (cleared, back in the pool) and is still being passed on")
			corrupt = true
		}
	}
	if corrupt {
		return
	}
	s.real.Accept(buffer)
	// overwrite the slots with fresh records (one per slot, reference count = number of outputs), so that a pipeline that
	// kept the slice delivers them instead of dying
	for i := range buffer {
		poison, _ := o.alloc.NewRecord(nil)
		for j := range poison.Fields[:o.nfields] {
			poison.Fields[j] = ""
		}
		o.pidLoc.Set(poison.Fields, poisonMarker)
		poison.RawLength = 32
		buffer[i] = poison
	}
}

type realSchedule struct {
	name   string
	conns  int
	keepUp bool // flush interval 2 ms and a pause of the feeding goroutine after every line; else flush interval 1 h and no pause
}

var realSchedules = []realSchedule{
	{"real-keepup", 1, true},
	{"real-burst", 1, false},
	{"real-two-keepup", 2, true},
	{"real-two-burst", 2, false},
}

var rstats struct{ cases, chunks, diskChunks, multiChunkCases int64 }

// checkReal runs one sequence through the shipped pipeline. The reference of every record is the same as in
// checkOrchestrated: the record alone on a fresh (harness-staged) pipeline of the same configuration.
func checkReal(ov orchVariant, os_ outputSet, seqShapes []shape2, sc realSchedule) (string, string) {
	defer runtime.GC()
	logCap.Reset()
	where := fmt.Sprintf("orchestration %s, outputs %s, sequence [%s], schedule %s", ov.name, os_.name, seqNames2(seqShapes), sc.name)
	root := hutil.ScratchRoot("seqisoreal")
	defer os.RemoveAll(root)
	text := configYAML2(ov, os_)
	for i := range os_.outputs {
		text = strings.Replace(text, "/tmp/verif-unused-buffer", filepath.Join(root, fmt.Sprintf("out%d", i)), 1)
	}
	conf, schema := parseConfigText(hutil.ScratchRoot("seqiso"), text)
	oldInterval, oldQueue := defs.IntermediateFlushInterval, defs.BufferMaxNumChunksInQueue
	defer func() { defs.IntermediateFlushInterval, defs.BufferMaxNumChunksInQueue = oldInterval, oldQueue }()
	defs.BufferMaxNumChunksInQueue = 64 // capacity of the chunk channel of every buffer (24 MB at the default)
	if sc.keepUp {
		defs.IntermediateFlushInterval = 2 * time.Millisecond
	} else {
		defs.IntermediateFlushInterval = time.Hour
	}
	alloc := base.NewLogAllocator(schema, len(conf.OutputBuffersPairs))
	capt := &realCapture{}
	mfPipe := promreg.NewMetricFactory("iso_", nil, nil)
	mfInput := promreg.NewMetricFactory("isoin_", nil, nil)
	args := bconfig.PipelineArgs{
		Schema:              schema,
		Deallocator:         alloc,
		MetricKeyLocators:   schema.MustCreateFieldLocators(conf.MetricKeys),
		TransformConfigs:    conf.Transformations,
		OutputBufferPairs:   conf.OutputBuffersPairs,
		NewConsumerOverride: capt.newConsumer,
		SendAllAtEnd:        false,
	}
	orch := conf.Orchestration.Value.StartOrchestrator(logger.Root(), args, mfPipe)
	inputConfig := conf.Inputs[0].Value
	createParser := func(parentLogger logger.Logger, inputCounter *base.LogInputCounterSet) base.LogParser {
		parser, perr := inputConfig.NewParser(parentLogger, alloc, schema, inputCounter)
		if perr != nil {
			panic(perr)
		}
		return parser
	}
	// the overwriting records come from an allocator of their own: taking them from the pipeline's pools would disturb the reuse under test
	obs := &realObsReceiver{real: orch, alloc: base.NewLogAllocator(schema, len(conf.OutputBuffersPairs)), pidLoc: schema.MustCreateFieldLocator("pid"), nfields: schema.GetMaxFields()}
	receiver := bsupport.NewLogParsingReceiver(logger.Root(), createParser, obs, mfInput.AddOrGetPrefix("input_", nil, nil))
	sinks := make([]base.MessageReceiverSink, sc.conns)
	for i := range sinks {
		sinks[i] = receiver.NewSink(fmt.Sprintf("10.0.0.%d:1000", i+1), base.ClientNumber(i+1))
	}
	readBuf := make([]byte, 16*1024)
	for i, sh := range seqShapes {
		k := i % sc.conns
		n := copy(readBuf, sh.line2(i))
		sinks[k].Accept(readBuf[:n])
		for j := range readBuf[:n] {
			readBuf[j] = '#'
		}
		sinks[k].Flush()
		if sc.keepUp {
			// the next flush pause comes after the flush interval: the orchestrator sink forwards, the worker processes the
			// record and its ticker cuts a chunk before the next line arrives
			time.Sleep(3 * time.Millisecond)
			sinks[k].Flush()
			time.Sleep(3 * time.Millisecond)
		}
	}
	for _, s := range sinks {
		s.Flush()
		s.Close()
	}
	orch.Shutdown()
	if obs.failKey != "" {
		return obs.failKey, where + ": " + obs.failMsg
	}
	if l := logCap.FirstBugLine(); l != "" {
		return "bug-log", where + ": " + l
	}
	// chunks the buffers saved at shutdown instead of handing them to the consumer
	capt.mu.Lock()
	chunks := append([]realChunk(nil), capt.chunks...)
	capt.mu.Unlock()
	for i, pair := range conf.OutputBuffersPairs {
		oroot := filepath.Join(root, fmt.Sprintf("out%d", i))
		var dirs []string
		dirs = append(dirs, oroot)
		entries, _ := os.ReadDir(oroot)
		for _, e := range entries {
			if e.IsDir() {
				dirs = append(dirs, filepath.Join(oroot, e.Name()))
			}
		}
		sort.Strings(dirs)
		for _, d := range dirs {
			idData, _ := os.ReadFile(filepath.Join(d, ".id"))
			files, _ := os.ReadDir(d)
			for _, f := range files {
				if f.IsDir() || !pair.OutputConfig.Value.MatchChunkID(f.Name()) {
					continue
				}
				data, err := os.ReadFile(filepath.Join(d, f.Name()))
				if err != nil {
					return "chunk:unreadable", fmt.Sprintf("%s: saved chunk %s: %v", where, f.Name(), err)
				}
				chunks = append(chunks, realChunk{output: pair.Name, id: f.Name(), data: data, snap: data, dirID: string(idData), onDisk: true})
			}
		}
	}
	rstats.cases++
	rstats.chunks += int64(len(chunks))
	perOutputChunks := map[string]int{}
	got := make([]map[int]oDecoded, len(os_.outputs))
	dirOf := make([]map[int]string, len(os_.outputs))
	for o := range got {
		got[o], dirOf[o] = map[int]oDecoded{}, map[int]string{}
	}
	for _, ch := range chunks {
		if ch.onDisk {
			rstats.diskChunks++
		}
		perOutputChunks[ch.output]++
		o := -1
		for i, pair := range conf.OutputBuffersPairs {
			if pair.Name == ch.output {
				o = i
			}
		}
		kind := os_.outputs[o]
		if !bytes.Equal(ch.data, ch.snap) {
			return "chunk:changed-after-queued", fmt.Sprintf("%s: output %d (%s): chunk %s differs at the end of the sequence from what the consumer received from the buffer (first difference at byte %d of %d)", where, o, kind, ch.id, firstByteDiff(ch.data, ch.snap), len(ch.snap))
		}
		var recs []decoded
		var derr error
		if kind == "D" {
			recs, derr = decodeDatadog(ch.data)
		} else {
			recs, derr = decodeFluentd(ch.data)
		}
		if derr != nil {
			return "chunk:undecodable", fmt.Sprintf("%s: output %d (%s): chunk %s cannot be decoded: %v", where, o, kind, ch.id, derr)
		}
		for _, r := range recs {
			m := r.fields["pid"]
			idx := -1
			for i := range seqShapes {
				if marker(i) == m && seqShapes[i].raw == "" {
					idx = i
				}
			}
			if idx < 0 && m == poisonMarker {
				return "alias:batch-slice-retained-after-accept", fmt.Sprintf("%s: output %d (%s) delivered a record the harness wrote into the batch slice AFTER BufferReceiverSink.Accept had returned: the orchestrator kept the caller's slice (\"The buffer is NOT usable after the function exits\")", where, o, kind)
			}
			if idx < 0 {
				return "pipeline:record-of-nobody", fmt.Sprintf("%s: output %d (%s) delivered a record whose pid %q is the marker of no line of the sequence: %s", where, o, kind, m, clip(r.render(true)))
			}
			if _, dup := got[o][idx]; dup {
				return "pipeline:record-delivered-twice", fmt.Sprintf("%s: output %d (%s): the record of line #%d (%s) was delivered twice", where, o, kind, idx, seqShapes[idx].name)
			}
			tag := r.fields["(tag)"]
			if kind == "D" {
				tag = r.fields["ddtags"]
			}
			got[o][idx] = oDecoded{d: r, tag: tag}
			if ch.onDisk {
				dirOf[o][idx] = ch.dirID
			} else {
				dirOf[o][idx] = "\x00not on disk"
			}
		}
	}
	for _, n := range perOutputChunks {
		if n > 1 {
			rstats.multiChunkCases++
			break
		}
	}
	metrics := hutil.Metrics(mfPipe)
	for k, v := range hutil.Metrics(mfInput) {
		metrics[k] = v
	}
	if os.Getenv("VERIF_ISO_DEBUG") != "" {
		for _, ch := range chunks {
			fmt.Fprintf(os.Stderr, "chunk output=%s id=%s bytes=%d onDisk=%v dirID=%q\n", ch.output, ch.id, len(ch.data), ch.onDisk, ch.dirID)
		}
		for o := range got {
			for i := range seqShapes {
				if od, ok := got[o][i]; ok {
					fmt.Fprintf(os.Stderr, "output %d record #%d tag %q dir %q: %s\n", o, i, od.tag, dirOf[o][i], clip(od.d.render(true)))
				}
			}
		}
		for _, k := range sortedKeys(metrics) {
			fmt.Fprintf(os.Stderr, "metric %s = %v\n", k, metrics[k])
		}
	}
	expectedMetrics := map[string]float64{}
	for i, sh := range seqShapes {
		alone := runAlone2(ov, os_, sh)
		if alone.key != "" {
			return alone.key, alone.msg
		}
		for k, v := range alone.metrics {
			if additive(k) {
				expectedMetrics[k] += v
			}
		}
		for o := range got {
			od, present := got[o][i]
			if present != alone.present {
				return "history:drop-decision", fmt.Sprintf("%s: record #%d (%s) delivered=%v on output %d in the sequence, delivered=%v alone", where, i, sh.name, present, o, alone.present)
			}
			if !present {
				continue
			}
			for name, v := range od.d.fields {
				if strings.Contains(v, "########") {
					return "alias:field-points-into-read-buffer", fmt.Sprintf("%s: record #%d (%s) on output %d: field %s reads %q — bytes of the reused read buffer, overwritten after the call", where, i, sh.name, o, name, clip(v))
				}
			}
			if want := ov.tagOf(sh); od.tag != want {
				return "tag:not-own-keys", fmt.Sprintf("%s: record #%d (%s) on output %d (%s) carries the tag %q; its own key values expand to %q", where, i, sh.name, o, os_.outputs[o], od.tag, want)
			}
			if d := dirOf[o][i]; d != "\x00not on disk" && d != ov.idOf(sh) {
				return "route:pipeline-id-not-own-keys", fmt.Sprintf("%s: record #%d (%s) on output %d was saved in the queue directory with ID %q; its own key values make the ID %q", where, i, sh.name, o, d, ov.idOf(sh))
			}
			a, b := od.d, alone.outputs[o]
			a.fields, b.fields = withoutMarker(a.fields), withoutMarker(b.fields)
			if f, gotv, want := firstDiff(a, b, sh.tsFromRec); f != "" {
				return "history:" + f, fmt.Sprintf("%s: record #%d (%s) on output %d (%s): field %s = %q after this history, but %q when the record is processed alone on a fresh pipeline",
					where, i, sh.name, o, os_.outputs[o], f, clip(gotv), clip(want))
			}
		}
	}
	return checkMetrics(where, ov, seqShapes, metrics, expectedMetrics)
}

func enumerateReal(ctx *seq.Ctx) {
	type combo struct {
		ov  string
		set string
	}
	combos := []combo{{"keyset", "FD"}, {"single", "FD"}, {"keyset1", "C"}, {"single", "C"}}
	nsched := 2
	if ctx.Thorough() {
		combos = append(combos, combo{"keyset", "F"}, combo{"keyset", "D"}, combo{"single", "D"}, combo{"keyset2", "CD"}, combo{"keyset1", "FF"})
		nsched = len(realSchedules)
	}
	find := func(c combo) (orchVariant, outputSet) {
		for _, ov := range orchVariants {
			for _, os_ := range outputSets2 {
				if ov.name == c.ov && os_.name == c.set {
					return ov, os_
				}
			}
		}
		panic("harness: no combination " + c.ov + "/" + c.set)
	}
	for _, c := range combos {
		ov, os_ := find(c)
		for _, sc := range realSchedules[:nsched] {
			ctx.Group(fmt.Sprintf("real/%s/outputs=%s/%s/len2", ov.name, os_.name, sc.name))
			for a := range shapes2 {
				if ctx.Stop() {
					return
				}
				for b := range shapes2 {
					if !ctx.Mine() {
						ctx.Skip()
						continue
					}
					seqShapes := []shape2{shapes2[a], shapes2[b]}
					names := seqNames2(seqShapes)
					ov2, os2, sc2 := ov, os_, sc
					ctx.Case(fmt.Sprintf("real/%s/%s/%s/%s", ov.name, os_.name, sc.name, names), true, names,
						func() (string, string) { return checkReal(ov2, os2, seqShapes, sc2) })
				}
			}
		}
	}
}
