// Orchestrated part of seq_isolation: the REAL orchestrators (obykeyset, osingleton) sit between the real parser sink
// and the stage, the input-stage configuration is widened (visible value-writing transforms, input-stage drop, malformed
// lines, two distinct shapes per stateful path), every pipeline makes SEVERAL chunks per output which are only decoded
// at the end of the sequence, and the metrics of the sequence are compared with the metrics of its records alone.
package main

import (
	"bytes"
	"fmt"
	"os"
	"runtime"
	"sort"
	"strings"
	"time"
	"unsafe"

	"github.com/relex/gotils/logger"
	"github.com/relex/gotils/promexporter/promreg"
	"github.com/relex/slog-agent/base"
	"github.com/relex/slog-agent/base/bsupport"
	"github.com/relex/slog-agent/defs"
	"github.com/relex/slog-agent/orchestrate/obase"
	"github.com/relex/slog-agent/orchestrate/obykeyset"
	"github.com/relex/slog-agent/orchestrate/osingleton"
	"github.com/relex/slog-agent/run"

	"slogverif/hutil"
	"slogverif/seq"
)

// ---------------------------------------------------------------------------------------------------------------------
// configuration under test (widened input stage)

const configHead2 = `
schema:
  fields: [facility, level, time, host, app, pid, source, extradata, log, class, task, vhost, pnum, sev, note, origin, ident, reqid, prio]
  maxFields: 24
inputs:
  - type: syslog
    address: localhost:5140
    levelMapping: [off, fatal, crit, error, warn, notice, info, debug]
    extractions:
      - type: extractHead
        key: log
        pattern: '\[*\] - '
        maxLen: 100
        destKey: class
      - type: extractTail
        key: source
        pattern: :[0-9a-f-]
        maxLen: 41
        destKey: task
      - type: extractTail
        key: app
        pattern: /*
        maxLen: 100
        destKey: vhost
      - type: addFields
        fields:
          pnum: ${task[-1:]}
      - type: if
        match:
          class: !!str-any
          task: !!str-any
        then:
          - type: addFields
            fields:
              task: $task:$class
      # "Any transform can be used here" (config_sample.yml): every value-writing transform appears at the input stage with
      # a VISIBLE destination. Their results wait in the batch of the parser sink, in the orchestrator sink and in the
      # pipeline channel until the pipeline serializes them.
      - type: addFields
        fields:
          ident: $host|$app|$source
      - type: extract
        key: log
        pattern: 'req=(?P<reqid>[a-z0-9]+)'
      - type: addFields
        fields:
          prio: $level
      - type: mapValue
        key: prio
        mapping:
          error: 'E (input-stage constant, shared by every error record)'
          warn: 'W (input-stage constant, shared by every warn record)'
        default: 'O (input-stage default, shared by all other records)'
      - type: switch
        cases:
          - match:
              app: trunc
            then:
              - type: truncate
                key: log
                maxLen: 200
                suffix: ' ... (cut at input)'
              - type: truncate
                key: source
                maxLen: 6
                suffix: '~'
              - type: replace
                key: host
                pattern: !!regex ^host(.*)$
                replacement: HOST-$1
          - match:
              app: inred
            then:
              - type: redactEmail
                key: log
                metricLabel: inredacted
          - match:
              app: inesc
            then:
              - type: unescape
                key: log
          - match:
              app: indrop
            then:
              - type: drop
                match:
                  level: !!str-not fatal
                percentage: 100
                metricLabel: indropped
      # pid stays: it carries the position of the record in the sequence (see shape2.line)
      - type: delFields
        keys: [facility, extradata]
orchestration:
%s
metricKeys: [host, vhost]
`

// the pipeline stage is the one of configHead (everything from "transformations:" on)
var configTail2 = configHead[strings.Index(configHead, "transformations:"):]

const fluentdCompressedOutput = `
  - name: %s
    buffer:
      type: hybridBuffer
      rootPath: /tmp/verif-unused-buffer
      maxBufSize: 1MB
    output:
      type: fluentdForward
      serialization:
        environmentFields: [host, vhost, app, source]
        hiddenFields: [task, pnum]
        rewriteFields:
          log:
            - type: inline
              field: class
            - type: unescape
      messageMode: CompressedPackedForward
      upstream:
        address: localhost:24224
        tls: false
        secret: x
        maxDuration: 30m
`

// orchVariant is one orchestration section. tagOf / idOf are the REFERENCE expansions, written from config_sample.yml:
// "keys: e.g. [app, level] => sshd,info ... keys are also used as dir names", "tag: ... Key fields may be referenced here",
// "singleton: single pipeline ... static tag only".
type orchVariant struct {
	name  string
	yaml  string
	tagOf func(s shape2) string
	idOf  func(s shape2) string
	keys  []string // names of the key fields (labels key_<name> of the pipeline metrics)
	keyOf func(s shape2) []string
}

var orchVariants = []orchVariant{
	{"keyset", "  type: byKeySet\n  keys: [app]\n  tag: test.$app\n",
		func(s shape2) string { return "test." + s.keyApp }, func(s shape2) string { return s.keyApp },
		[]string{"app"}, func(s shape2) []string { return []string{s.keyApp} }},
	// one key, one-variable tag: the tag IS the key value, the pipeline ID IS the key value
	{"keyset1", "  type: byKeySet\n  keys: [app]\n  tag: $app\n",
		func(s shape2) string { return s.keyApp }, func(s shape2) string { return s.keyApp },
		[]string{"app"}, func(s shape2) []string { return []string{s.keyApp} }},
	{"single", "  type: singleton\n  tag: test.tag\n",
		func(s shape2) string { return "test.tag" }, func(s shape2) string { return "" },
		nil, func(s shape2) []string { return nil }},
	// thorough only: two keys, both taken from the record's own bytes (host is a metric key and cannot be a key field too)
	{"keyset2", "  type: byKeySet\n  keys: [app, source]\n  tag: t.$source.$app\n",
		func(s shape2) string { return "t." + s.keySource() + "." + s.keyApp }, func(s shape2) string { return s.keyApp + "," + s.keySource() },
		[]string{"app", "source"}, func(s shape2) []string { return []string{s.keyApp, s.keySource()} }},
}

// keySource is the value the documentation gives the field source after the input stage: `extractTail :[0-9a-f-]` cuts the
// task off ("source=task.log:123e... => source=task.log"), `truncate maxLen 6 suffix ~` of app=trunc keeps 6 bytes + suffix
func (s shape2) keySource() string {
	src := s.source
	if i := strings.IndexByte(src, ':'); i >= 0 {
		src = src[:i]
	}
	if s.app == "trunc" && len(src) > 6 {
		src = src[:6] + "~"
	}
	return src
}

var outputSets2 = []outputSet{
	{"F", []string{"F"}},
	{"FD", []string{"F", "D"}},
	{"D", []string{"D"}},
	{"C", []string{"C"}},
	{"FF", []string{"F", "F"}},
	{"CD", []string{"C", "D"}},
}

func configYAML2(ov orchVariant, os_ outputSet) string {
	var sb strings.Builder
	fmt.Fprintf(&sb, configHead2, ov.yaml)
	sb.WriteString(configTail2)
	for i, kind := range os_.outputs {
		switch kind {
		case "F":
			fmt.Fprintf(&sb, fluentdOutput, fmt.Sprintf("out%d", i))
		case "C":
			fmt.Fprintf(&sb, fluentdCompressedOutput, fmt.Sprintf("out%d", i))
		default:
			fmt.Fprintf(&sb, datadogOutput, fmt.Sprintf("out%d", i))
		}
	}
	return sb.String()
}

// ---------------------------------------------------------------------------------------------------------------------
// record shapes of the orchestrated part

// shape2 is a line of the orchestrated menus. keyApp / keyHost are the values the documentation gives the fields app and
// host AFTER the input stage (extractTail "/*" cuts the vhost off app; `replace` rewrites host of app=trunc): the
// reference for tag, pipeline ID and key labels. raw != "": the line is fed as it is (malformed lines).
type shape2 struct {
	shape
	keyApp  string
	keyHost string
	raw     string
}

func marker(i int) string { return fmt.Sprintf("42%02d", i) }

// line2 is the line of the shape at position i of a sequence: the PID field carries the position (fixed width, so that
// the length and the size class of the line do not depend on it). The PID is a visible field of both outputs: the decoded
// records are assigned to the lines by it, and it is left out of the differential comparison.
func (s shape2) line2(i int) []byte {
	if s.raw != "" {
		return []byte(s.raw)
	}
	return []byte(fmt.Sprintf("<%s>1 %s %s %s %s %s [meta@1] %s", s.pri, s.time, s.host, s.app, marker(i), s.source, s.msg))
}

const uuid2 = "0f1e2d3c-4b5a-6978-8796-a5b4c3d2e1f0"

func sh2(name, pri, ts, host, app, source, msg string, keyApp, keyHost string) shape2 {
	return shape2{shape: shape{name, pri, ts, host, app, source, msg, ts != "-"}, keyApp: keyApp, keyHost: keyHost}
}

var shapes2 = []shape2{
	sh2("short", "14", "2020-01-02T03:04:05.123456+02:00", "host1", "appA", "main.log", "plain short message", "appA", "host1"),
	sh2("pooled1500", "14", "2020-02-03T04:05:06.000001Z", "host2", "appA", "main.log", "big "+filler(1500, "alpha"), "appA", "host2"),
	// pooled-size records that are the FIRST of their key set (own app), of one size class
	sh2("pooledP", "14", "2021-02-03T04:05:06.000002Z", "hostP", "appP", "p.log", "BIG "+filler(1500, "omega"), "appP", "hostP"),
	sh2("pooledQ", "13", "2021-03-04T05:06:07.000003Z", "hostQQ", "appQQ", "qq.log", "Big "+filler(1400, "sigma")+" req=q7 ", "appQQ", "hostQQ"),
	sh2("bare", "15", "2020-03-04T05:06:07Z", "-", "-", "-", "x", "-", "-"),
	sh2("full", "12", "2020-04-05T06:07:08.5-01:00", "host3", "appB/vhost1.example.com", "task.log:"+uuid, "[MyClass ] - extraction of class, task and vhost req=abc123 done", "appB", "host3"),
	sh2("full2", "12", "2020-04-06T07:08:09.25-02:00", "host3b", "appB/vhost2.example.org", "job.log:"+uuid2, "[OtherClass] - second extraction req=zz9 end", "appB", "host3b"),
	sh2("escaped", "14", "2020-05-06T07:08:09.25Z", "host4", "appA", "esc.log", `line1\nline2\ttabbed \\ backslash \x kept`, "appA", "host4"),
	sh2("inesc", "14", "2020-05-07T07:08:09.5Z", "host4i", "inesc", "esc.log", `in1\nin2\ttab at the input stage`, "inesc", "host4i"),
	sh2("inesc2", "14", "2020-05-08T07:08:09.75Z", "host4j", "inesc", "esc2.log", `other\tvalue \\ and a much longer tail\nend`, "inesc", "host4j"),
	sh2("multiline", "14", "2020-06-07T08:09:10.75Z", "host5", "appA", "ml.log", "first line\nsecond line with literal \\n and \\t kept", "appA", "host5"),
	sh2("trunc", "11", "2020-07-08T09:10:11.125Z", "host6", "trunc", "access.log", "POST /very/long/request "+filler(300, "param"), "trunc", "HOST-6"),
	sh2("pooled1900trunc", "11", "2020-12-13T14:15:16.999999999Z", "host11", "trunc", "access.log", "PUT "+filler(1900, "beta"), "trunc", "HOST-11"),
	sh2("error", "11", "2020-08-09T10:11:12.5Z", "host7", "appA", "main.log", "an error record, not truncated", "appA", "host7"),
	sh2("warn", "12", "2020-08-09T10:11:13.5Z", "host7", "appC", "main.log", "a warn record [NotAtStart] - x", "appC", "host7"),
	sh2("redact", "14", "2020-09-10T11:12:13.875Z", "host8", "redact", "auth.log", "user john.doe@example.com logged in, cc bob@test.org, not-an-email@ x", "redact", "host8"),
	sh2("redact2", "14", "2020-09-11T11:12:13.5Z", "host8b", "redact", "auth2.log", "mail from alice.smith@corp.example to carol@x.io bounced", "redact", "host8b"),
	sh2("inred", "14", "2020-09-12T11:12:13.25Z", "host8c", "inred", "auth.log", "input stage: dave@example.net asked for eve@example.com", "inred", "host8c"),
	sh2("inred2", "14", "2020-09-13T11:12:13.125Z", "host8d", "inred", "auth3.log", "second: frank.long.name@sub.domain.example wrote", "inred", "host8d"),
	sh2("dropped", "14", "2020-10-11T12:13:14Z", "host9", "dropme", "noise.log", "this record is dropped by a 100% drop", "dropme", "host9"),
	sh2("indrop", "14", "2020-10-12T12:13:14Z", "host9i", "indrop", "noise.log", "this record is dropped at the INPUT stage", "indrop", "host9i"),
	sh2("indropBig", "14", "2020-10-13T12:13:14Z", "host9j", "indrop", "noise2.log", "dropped at the input stage, pooled size "+filler(1450, "gone"), "indrop", "host9j"),
	sh2("overflow", "14", "2020-11-12T13:14:15.000000001Z", "host10", "appA", "big.log", filler(4090, "ovf")+"ééééééééééééééééé tail beyond the limit", "appA", "host10"),
	sh2("overflow2", "14", "2020-11-13T13:14:15.000000002Z", "host10b", "appA", "big2.log", filler(4093, "OVER")+"ßßßßßßßßßßßßß another tail beyond the limit", "appA", "host10b"),
	sh2("badtime", "14", "-", "host12", "appA", "main.log", "timestamp missing, receive time is used", "appA", "host12"),
	// malformed lines: no record; the parser releases what it allocated (the second release-at-input path besides drop)
	{shape: shape{name: "malShort"}, raw: "<14>1 too short"},
	{shape: shape{name: "malGarbage1500"}, raw: "GARBAGE without a PRI part, pooled size: hostG appG " + filler(1500, "junk")},
	{shape: shape{name: "malFields"}, raw: "<14>1 2020-01-01T00:00:00Z hostM appM 4242"},
	{shape: shape{name: "malUTF8Big"}, raw: "<14>1 2020-01-01T00:00:00Z host\xffN appN 4242 n.log [meta@1] header is not UTF-8 " + filler(1300, "bad")},
}

func shape2ByName(name string) shape2 {
	for _, s := range shapes2 {
		if s.name == name {
			return s
		}
	}
	panic("harness: no shape " + name)
}

func seqNames2(s []shape2) string {
	names := make([]string, len(s))
	for i, sh := range s {
		names[i] = sh.name
	}
	return strings.Join(names, ",")
}

// ---------------------------------------------------------------------------------------------------------------------
// schedules

// schedule says how the sequence is fed and when the stage behind the orchestrator runs.
type schedule struct {
	name  string
	conns int
	// flushEach: a flush pause of the connection after every line (else one flush at the end)
	flushEach bool
	// hold: defs.IntermediateFlushInterval is one hour, so that the by-key-set orchestrator sink keeps the records in its
	// own per-key-set buffers until the connection is closed (else 0: every flush pause forwards them to the pipelines)
	hold bool
	// eager: the stage processes everything queued after every flush pause (the worker keeps up with the input);
	// else it lags: a queued batch is only processed when the channel (default capacity 1) must take the next one, or at
	// the end (the worker is slower than the input)
	eager bool
	// tickCut: the stage cuts a chunk after every batch it processed, as LogProcessingWorker.onTick does (else only at the end)
	tickCut bool
	// masks (thorough): instead of flushEach / eager, a flush pause follows line i iff bit i of flushMask is set, and the
	// stage processes everything queued after that pause iff bit i of drainMask is set
	masks                bool
	flushMask, drainMask int
}

var schedules = []schedule{
	{name: "each-eager-tickcut", conns: 1, flushEach: true, eager: true, tickCut: true},
	{name: "each-eager-endcut", conns: 1, flushEach: true, eager: true},
	{name: "each-lag-tickcut", conns: 1, flushEach: true, tickCut: true},
	{name: "each-hold-endcut", conns: 1, flushEach: true, hold: true},
	{name: "batch", conns: 1},
	{name: "two-eager-tickcut", conns: 2, flushEach: true, eager: true, tickCut: true},
	{name: "two-lag-endcut", conns: 2, flushEach: true},
	// thorough only
	{name: "two-hold-tickcut", conns: 2, flushEach: true, hold: true, tickCut: true},
	{name: "two-batch", conns: 2},
	{name: "each-lag-endcut", conns: 1, flushEach: true},
}

const quickSchedules = 7

// ---------------------------------------------------------------------------------------------------------------------
// orchestrated pipeline

type heldChunk struct {
	data []byte // the chunk as handed out by the chunk maker, NOT copied: it is what a buffer queue would hold
	snap []byte // copy taken at the moment the chunk was made
}

// stage is what obase.PrepareSequentialPipeline builds for one pipeline, without bufferer / consumer / goroutine
type stage struct {
	p           *opipe
	input       <-chan []*base.LogRecord
	id, idSnap  string
	tag, tagSnp string
	procCounter *base.LogProcessCounterSet
	transforms  []base.LogTransformFunc
	serializers []base.LogSerializer
	chunkMakers []base.LogChunkMaker
	chunks      [][]heldChunk // per output
}

type recSnap struct {
	fields    []string
	timestamp time.Time
	unescaped bool
	rawLength int
	marker    string
}

type opipe struct {
	ov       orchVariant
	kinds    []string
	conf     run.Config
	schema   base.LogSchema
	alloc    *base.LogAllocator
	mfPipe   *promreg.MetricFactory
	mfInput  *promreg.MetricFactory
	orch     base.Orchestrator
	receiver base.MultiSinkMessageReceiver
	stages   []*stage
	readBuf  []byte
	pidLoc   base.LogFieldLocator
	timeLoc  base.LogFieldLocator
	poison   *base.LogRecord
	inflight map[*base.LogRecord]recSnap

	failKey, failMsg string

	// pool observation (notes only)
	seenRecords map[*base.LogRecord]bool
	seenBufs    map[uintptr]bool
	recHits     int
	bufHits     int
	nChunks     int
}

func (p *opipe) fail(key, msg string) {
	if p.failKey == "" {
		p.failKey, p.failMsg = key, msg
	}
}

// obsReceiver / obsSink: a pass-through observer at the documented seam base.MultiSinkBufferReceiver between the parser
// sink and the orchestrator sink. It (1) snapshots every record handed over, so that the stage can tell whether a record
// changed while it WAITED in the orchestrator, (2) checks that no record is handed over while it is still on its way,
// and (3) overwrites the batch slice after the call: "The buffer is NOT usable after the function exits".
type obsReceiver struct {
	p    *opipe
	real base.MultiSinkBufferReceiver
}

type obsSink struct {
	p    *opipe
	real base.BufferReceiverSink
}

func (o *obsReceiver) NewSink(addr string, num base.ClientNumber) base.BufferReceiverSink {
	return &obsSink{p: o.p, real: o.real.NewSink(addr, num)}
}

func (s *obsSink) Tick()  { s.real.Tick() }
func (s *obsSink) Close() { s.real.Close() }

func (s *obsSink) Accept(buffer []*base.LogRecord) {
	p := s.p
	for _, record := range buffer {
		m := p.pidLoc.Get(record.Fields)
		if _, dup := p.inflight[record]; dup {
			p.fail("alias:record-delivered-twice", fmt.Sprintf("the parser sink handed over the same *LogRecord twice while the first delivery (marker %s) was still on its way to the pipeline; now it reads marker %q", p.inflight[record].marker, m))
		}
		if record.RawLength == 0 {
			p.fail("alias:released-record-handed-over", fmt.Sprintf("the parser sink handed over a *LogRecord (marker now %q) whose RawLength is 0: it was released (cleared, back in the pool) and is still being passed on", m))
		}
		snap := recSnap{fields: make([]string, len(record.Fields)), timestamp: record.Timestamp, unescaped: record.Unescaped, rawLength: record.RawLength, marker: strings.Clone(m)}
		for i, f := range record.Fields {
			snap.fields[i] = strings.Clone(f)
		}
		p.inflight[record] = snap
		// pool observation
		if p.seenRecords[record] {
			p.recHits++
		}
		p.seenRecords[record] = true
		if record.RawLength > defs.InputLogMinRecordBytesToPool {
			if t := p.timeLoc.Get(record.Fields); len(t) > 0 {
				b := uintptr(unsafe.Pointer(unsafe.StringData(t)))
				// the time field starts right behind "<pri>1 ": at most 7 bytes into the backing buffer
				b &^= 7
				if p.seenBufs[b] {
					p.bufHits++
				}
				p.seenBufs[b] = true
			}
		}
	}
	s.real.Accept(buffer)
	for i := range buffer {
		buffer[i] = p.poison
	}
}

func newOPipe(ov orchVariant, os_ outputSet) *opipe {
	dir := hutil.ScratchRoot("seqiso")
	conf, schema := parseConfigText(dir, configYAML2(ov, os_))
	p := &opipe{ov: ov, kinds: os_.outputs, conf: conf, schema: schema,
		inflight: map[*base.LogRecord]recSnap{}, seenRecords: map[*base.LogRecord]bool{}, seenBufs: map[uintptr]bool{}}
	p.alloc = base.NewLogAllocator(schema, len(conf.OutputBuffersPairs))
	p.mfPipe = promreg.NewMetricFactory("iso_", nil, nil)
	p.mfInput = promreg.NewMetricFactory("isoin_", nil, nil)
	p.pidLoc = schema.MustCreateFieldLocator("pid")
	p.timeLoc = schema.MustCreateFieldLocator("time")
	p.poison = &base.LogRecord{Fields: make(base.LogFields, schema.GetMaxFields())}
	for i := range p.poison.Fields {
		p.poison.Fields[i] = "POISON(batch slice used after Accept returned)"
	}
	names := make([]string, len(conf.OutputBuffersPairs))
	for i, pair := range conf.OutputBuffersPairs {
		names[i] = pair.Name
	}
	metricKeyLocators := schema.MustCreateFieldLocators(conf.MetricKeys)
	// the pipeline starter repeats obase.PrepareSequentialPipeline without bufferer, consumer and worker goroutine: the
	// harness itself takes the batches from the channel (see drain)
	var starter obase.PipelineStarter = func(parentLogger logger.Logger, metricCreator promreg.MetricCreator,
		input <-chan []*base.LogRecord, bufferID string, outputTag string, onStopped func()) {
		st := &stage{p: p, input: input, id: bufferID, idSnap: strings.Clone(bufferID), tag: outputTag, tagSnp: strings.Clone(outputTag)}
		st.procCounter = base.NewLogProcessCounter(metricCreator, schema, metricKeyLocators, names)
		st.transforms = bsupport.NewTransformsFromConfig(conf.Transformations, schema, parentLogger, st.procCounter)
		for _, pair := range conf.OutputBuffersPairs {
			st.serializers = append(st.serializers, pair.OutputConfig.Value.NewSerializer(parentLogger, schema, outputTag))
			st.chunkMakers = append(st.chunkMakers, pair.OutputConfig.Value.NewChunkMaker(parentLogger, outputTag))
		}
		st.chunks = make([][]heldChunk, len(st.serializers))
		p.stages = append(p.stages, st)
	}
	// the two constructors below are called exactly as Config.StartOrchestrator of the two packages calls them (minus the
	// recovery of queue directories, which belongs to C06)
	switch oc := conf.Orchestration.Value.(type) {
	case *obykeyset.Config:
		p.orch = obykeyset.NewOrchestrator(logger.Root(), schema, oc.Keys, oc.TagTemplate, p.mfPipe, starter, nil)
	case *osingleton.Config:
		p.orch = osingleton.NewOrchestrator(logger.Root(), oc.Tag, p.mfPipe.AddOrGetPrefix("process_", []string{"orchestrator"}, []string{"singleton"}), starter)
	default:
		panic(fmt.Sprintf("harness: unknown orchestration config %T", oc))
	}
	inputConfig := conf.Inputs[0].Value
	createParser := func(parentLogger logger.Logger, inputCounter *base.LogInputCounterSet) base.LogParser {
		parser, perr := inputConfig.NewParser(parentLogger, p.alloc, schema, inputCounter)
		if perr != nil {
			panic(perr)
		}
		return parser
	}
	p.receiver = bsupport.NewLogParsingReceiver(logger.Root(), createParser, &obsReceiver{p: p, real: p.orch}, p.mfInput.AddOrGetPrefix("input_", nil, nil))
	p.readBuf = make([]byte, 16*1024)
	return p
}

func (st *stage) cut() {
	for i := range st.chunkMakers {
		if maybeChunk := st.chunkMakers[i].FlushBuffer(); maybeChunk != nil {
			st.procCounter.CountChunk(i, maybeChunk)
			st.hold(i, maybeChunk)
		}
	}
}

func (st *stage) hold(i int, chunk *base.LogChunk) {
	st.chunks[i] = append(st.chunks[i], heldChunk{data: chunk.Data, snap: append([]byte(nil), chunk.Data...)})
	st.p.nChunks++
}

// onInput repeats bsupport.LogProcessingWorker.onInput for one batch taken from the pipeline channel
func (st *stage) onInput(buffer []*base.LogRecord, tickCut bool) {
	p := st.p
	for _, record := range buffer {
		if record == p.poison {
			p.fail("alias:batch-slice-retained-after-accept", fmt.Sprintf("pipeline %q received a batch whose slots were overwritten after BufferReceiverSink.Accept returned: the orchestrator kept the caller's slice (\"The buffer is NOT usable after the function exits\")", st.idSnap))
			continue
		}
		snap, ok := p.inflight[record]
		if !ok {
			p.fail("alias:record-processed-twice", fmt.Sprintf("pipeline %q received a *LogRecord (marker now %q) that is not on its way: it was already processed and released, or never handed over by the parser sink", st.idSnap, p.pidLoc.Get(record.Fields)))
			continue
		}
		delete(p.inflight, record)
		// a record that waits (in the orchestrator sink, in the channel) does not change
		for i, f := range record.Fields {
			if f != snap.fields[i] {
				p.fail("alias:waiting-record-changed", fmt.Sprintf("record with marker %s: field %q was %q when the parser sink handed the record over and is %q when pipeline %q takes it", snap.marker, p.schema.GetFieldNames()[i], clip(snap.fields[i]), clip(f), st.idSnap))
				break
			}
		}
		if !record.Timestamp.Equal(snap.timestamp) || record.Unescaped != snap.unescaped || record.RawLength != snap.rawLength {
			p.fail("alias:waiting-record-changed", fmt.Sprintf("record with marker %s: timestamp / unescaped flag / raw length were %v/%v/%d at hand-over and are %v/%v/%d when pipeline %q takes it", snap.marker, snap.timestamp, snap.unescaped, snap.rawLength, record.Timestamp, record.Unescaped, record.RawLength, st.idSnap))
		}
		icounter := st.procCounter.SelectMetricKeySet(record)
		if bsupport.RunTransforms(record, st.transforms) == base.DROP {
			icounter.CountRecordDrop(record)
			p.alloc.Release(record)
			continue
		}
		icounter.CountRecordPass(record)
		for i := range st.serializers {
			stream := st.serializers[i].SerializeRecord(record)
			p.alloc.Release(record)
			st.procCounter.CountStream(i, stream)
			if maybeChunk := st.chunkMakers[i].WriteStream(stream); maybeChunk != nil {
				st.procCounter.CountChunk(i, maybeChunk)
				st.hold(i, maybeChunk)
			}
		}
	}
	if tickCut {
		st.cut()
	}
}

// drain lets every stage process what is queued for it. onlyFull: only one batch, and only of the stages whose channel
// cannot take another batch (the worker lags behind as far as the channel capacity allows).
func (p *opipe) drain(onlyFull bool, tickCut bool) {
	for si := 0; si < len(p.stages); si++ {
		st := p.stages[si]
		for {
			if onlyFull && len(st.input) < cap(st.input) {
				break
			}
			var batch []*base.LogRecord
			select {
			case batch = <-st.input:
			default:
			}
			if batch == nil {
				break
			}
			st.onInput(batch, tickCut)
			if onlyFull {
				break
			}
		}
	}
}

type oDecoded struct {
	d     decoded
	stage *stage
	tag   string
}

// run feeds the sequence according to the schedule, ends the connections, lets the stages finish, and decodes every
// chunk of every pipeline — only now, after all of them were made.
func (p *opipe) run(seqShapes []shape2, sc schedule) (perOutput []map[int]oDecoded, metrics map[string]float64) {
	oldInterval := defs.IntermediateFlushInterval
	defer func() { defs.IntermediateFlushInterval = oldInterval }()
	if sc.hold {
		defs.IntermediateFlushInterval = time.Hour
	} else {
		defs.IntermediateFlushInterval = 0
	}
	sinks := make([]base.MessageReceiverSink, sc.conns)
	for i := range sinks {
		sinks[i] = p.receiver.NewSink(fmt.Sprintf("10.0.0.%d:1000", i+1), base.ClientNumber(i+1))
	}
	for i, sh := range seqShapes {
		k := i % sc.conns
		// like the TCP reader, hand every line over in ONE reused read buffer that is only valid during the call
		n := copy(p.readBuf, sh.line2(i))
		sinks[k].Accept(p.readBuf[:n])
		for j := range p.readBuf[:n] {
			p.readBuf[j] = '#'
		}
		if sc.flushEach || (sc.masks && sc.flushMask&(1<<uint(i)) != 0) {
			p.drain(true, sc.tickCut) // never let a send into a full channel wait for its 60 s timeout
			sinks[k].Flush()
			if sc.eager || (sc.masks && sc.drainMask&(1<<uint(i)) != 0) {
				p.drain(false, sc.tickCut)
			}
		}
	}
	for _, s := range sinks {
		p.drain(true, sc.tickCut)
		s.Flush()
		p.drain(true, sc.tickCut)
		s.Close()
	}
	p.drain(false, sc.tickCut)
	for _, st := range p.stages {
		st.cut() // LogProcessingWorker.onStop
		st.procCounter.UpdateMetrics()
	}
	if len(p.inflight) > 0 && p.failKey == "" {
		var ms []string
		for _, s := range p.inflight {
			ms = append(ms, s.marker)
		}
		sort.Strings(ms)
		p.fail("pipeline:record-never-reached-a-pipeline", fmt.Sprintf("records with markers %v were handed to the orchestrator and never arrived at a pipeline although every connection was closed", ms))
	}
	if l := logCap.FirstBugLine(); l != "" {
		p.fail("bug-log", l)
	}
	if p.failKey != "" {
		return nil, nil
	}
	// the identity of a pipeline does not change after its creation
	for _, st := range p.stages {
		if st.tag != st.tagSnp {
			p.fail("alias:pipeline-tag-changed", fmt.Sprintf("the tag handed to the pipeline starter read %q at the creation of the pipeline and reads %q at the end of the sequence", st.tagSnp, st.tag))
			return nil, nil
		}
		if st.id != st.idSnap {
			p.fail("alias:pipeline-id-changed", fmt.Sprintf("the pipeline ID handed to the pipeline starter read %q at the creation of the pipeline and reads %q at the end of the sequence", st.idSnap, st.id))
			return nil, nil
		}
	}
	perOutput = make([]map[int]oDecoded, len(p.kinds))
	for o, kind := range p.kinds {
		perOutput[o] = map[int]oDecoded{}
		for _, st := range p.stages {
			for ci, ch := range st.chunks[o] {
				if !bytes.Equal(ch.data, ch.snap) {
					p.fail("chunk:changed-after-queued", fmt.Sprintf("output %d (%s) of pipeline %q: chunk #%d of %d differs at the end of the sequence from what it was when the chunk maker handed it out (first difference at byte %d of %d): a queued chunk shares memory with the chunk maker", o, kind, st.idSnap, ci, len(st.chunks[o]), firstByteDiff(ch.data, ch.snap), len(ch.snap)))
					return nil, nil
				}
				var recs []decoded
				var derr error
				if kind == "D" {
					recs, derr = decodeDatadog(ch.data)
				} else {
					recs, derr = decodeFluentd(ch.data)
				}
				if derr != nil {
					p.fail("chunk:undecodable", fmt.Sprintf("output %d (%s) of pipeline %q: chunk #%d cannot be decoded: %v", o, kind, st.idSnap, ci, derr))
					return nil, nil
				}
				for _, r := range recs {
					m := r.fields["pid"]
					idx := -1
					for i := range seqShapes {
						if marker(i) == m && seqShapes[i].raw == "" {
							idx = i
						}
					}
					if idx < 0 {
						p.fail("pipeline:record-of-nobody", fmt.Sprintf("output %d (%s) of pipeline %q delivered a record whose pid %q is the marker of no line of the sequence: %s", o, kind, st.idSnap, m, clip(r.render(true))))
						return nil, nil
					}
					if _, dup := perOutput[o][idx]; dup {
						p.fail("pipeline:record-delivered-twice", fmt.Sprintf("output %d (%s): the record of line #%d (%s) was delivered twice", o, kind, idx, seqShapes[idx].name))
						return nil, nil
					}
					tag := r.fields["(tag)"]
					if kind == "D" {
						tag = r.fields["ddtags"]
					}
					perOutput[o][idx] = oDecoded{d: r, stage: st, tag: tag}
				}
			}
		}
	}
	metrics = hutil.Metrics(p.mfPipe)
	for k, v := range hutil.Metrics(p.mfInput) {
		metrics[k] = v
	}
	return perOutput, metrics
}

func firstByteDiff(a, b []byte) int {
	for i := 0; i < len(a) && i < len(b); i++ {
		if a[i] != b[i] {
			return i
		}
	}
	return min(len(a), len(b))
}

// ---------------------------------------------------------------------------------------------------------------------
// oracle

type aloneResult2 struct {
	present bool
	outputs []decoded
	metrics map[string]float64
	key     string
	msg     string
}

var aloneCache2 = map[string]aloneResult2{}

var aloneSchedule = schedule{name: "alone", conns: 1, flushEach: true, eager: true}

// runAlone2: the record alone on a fresh orchestrated pipeline; the absolute clauses (tag and pipeline ID follow the
// record's own keys, key labels) are applied to the alone run as well, so the reference itself is checked.
func runAlone2(ov orchVariant, os_ outputSet, sh shape2) aloneResult2 {
	ck := ov.name + "/" + os_.name + "/" + sh.name
	if r, ok := aloneCache2[ck]; ok {
		return r
	}
	p := newOPipe(ov, os_)
	per, metrics := p.run([]shape2{sh}, aloneSchedule)
	var r aloneResult2
	if p.failKey != "" {
		r = aloneResult2{key: p.failKey, msg: fmt.Sprintf("record %s alone (orchestration %s, outputs %s): %s", sh.name, ov.name, os_.name, p.failMsg)}
	} else {
		_, present := per[0][0]
		r = aloneResult2{present: present, metrics: metrics}
		for o := range per {
			od, ok := per[o][0]
			if ok != present {
				r = aloneResult2{key: "outputs:drop-decision", msg: fmt.Sprintf("record %s alone (orchestration %s, outputs %s): delivered on output 0: %v, on output %d: %v", sh.name, ov.name, os_.name, present, o, ok)}
				break
			}
			r.outputs = append(r.outputs, od.d)
		}
	}
	aloneCache2[ck] = r
	return r
}

// additive says whether a metric family counts per record, so that the value after a sequence is the sum of the values of
// its records alone: the record / byte counters of input and processing (metric help texts: "Numbers of passed log records",
// "... dropped log records", "... labelled log records", "Total lengths in bytes of serialized log records"). The chunk
// counters depend on where chunks are cut, the buffer / output / recovery families count chunks.
func additive(series string) bool {
	name := series
	if i := strings.IndexByte(series, '{'); i >= 0 {
		name = series[:i]
	}
	if !strings.HasPrefix(name, "iso_process_") && !strings.HasPrefix(name, "isoin_input_") {
		return false
	}
	name = strings.TrimPrefix(strings.TrimPrefix(name, "iso_process_"), "isoin_input_")
	switch name {
	case "passed_records_total", "passed_record_bytes_total", "dropped_records_total", "dropped_record_bytes_total",
		"labelled_records_total", "labelled_record_bytes_total", "serialized_bytes_total":
		return true
	}
	return false
}

// checkMetrics is the metrics oracle: (1) every per-record counter series that exists after the sequence — label values
// included — is a series that a record of the sequence produces alone, and its value is the sum over the records;
// (2) the orchestration key labels of EVERY series are the key values of a record of the sequence.
func checkMetrics(where string, ov orchVariant, seqShapes []shape2, metrics, expectedMetrics map[string]float64) (string, string) {
	for _, k := range sortedKeys(metrics) {
		if !additive(k) {
			continue
		}
		if _, known := expectedMetrics[k]; !known {
			return "metrics:series-of-no-record", fmt.Sprintf("%s: the metric series %s = %v exists after the sequence, but none of its records produces a series with these label values when processed alone (expected series: %s)", where, k, metrics[k], clip(strings.Join(sortedKeys(expectedMetrics), " ")))
		}
	}
	for _, k := range sortedKeys(expectedMetrics) {
		if _, exists := metrics[k]; !exists {
			return "metrics:series-missing", fmt.Sprintf("%s: the metric series %s (= %v) which a record of the sequence produces when processed alone does not exist after the sequence (series: %s)", where, k, expectedMetrics[k], clip(strings.Join(sortedKeys(metrics), " ")))
		}
		if metrics[k] != expectedMetrics[k] {
			return "metrics:not-the-sum-of-the-records", fmt.Sprintf("%s: metric series %s = %v after the sequence, the records alone add up to %v", where, k, metrics[k], expectedMetrics[k])
		}
	}
	if len(ov.keys) > 0 {
		allowed := map[string]bool{}
		for _, sh := range seqShapes {
			if sh.raw == "" {
				allowed[strings.Join(ov.keyOf(sh), "\x00")] = true
			}
		}
		for _, k := range sortedKeys(metrics) {
			vals := make([]string, len(ov.keys))
			n := 0
			for i, name := range ov.keys {
				if v, ok := labelValue(k, "key_"+name); ok {
					vals[i] = v
					n++
				}
			}
			if n == len(ov.keys) && !allowed[strings.Join(vals, "\x00")] {
				return "metrics:key-label-of-no-record", fmt.Sprintf("%s: metric series %s carries the orchestration key labels %q, which are the key values of no record of the sequence", where, k, vals)
			}
		}
	}
	return "", ""
}

var ostats struct {
	cases, records, recHits, bufHits, chunks, multiChunkCases, pipelines int64
}

func checkOrchestrated(ov orchVariant, os_ outputSet, seqShapes []shape2, sc schedule) (string, string) {
	defer runtime.GC() // the collector is off while a case runs (see main)
	logCap.Reset()
	where := fmt.Sprintf("orchestration %s, outputs %s, sequence [%s], schedule %s", ov.name, os_.name, seqNames2(seqShapes), sc.name)
	p := newOPipe(ov, os_)
	per, metrics := p.run(seqShapes, sc)
	if p.failKey != "" {
		return p.failKey, where + ": " + p.failMsg
	}
	ostats.cases++
	ostats.records += int64(len(seqShapes))
	ostats.recHits += int64(p.recHits)
	ostats.bufHits += int64(p.bufHits)
	ostats.chunks += int64(p.nChunks)
	ostats.pipelines += int64(len(p.stages))
	for _, st := range p.stages {
		for o := range st.chunks {
			if len(st.chunks[o]) > 1 {
				ostats.multiChunkCases++
				break
			}
		}
	}
	if os.Getenv("VERIF_ISO_DEBUG") != "" {
		debugDump(p, per, metrics)
	}
	expectedMetrics := map[string]float64{}
	for i, sh := range seqShapes {
		alone := runAlone2(ov, os_, sh)
		if alone.key != "" {
			return alone.key, alone.msg
		}
		for k, v := range alone.metrics {
			if additive(k) {
				expectedMetrics[k] += v
			}
		}
		for o := range per {
			od, got := per[o][i]
			if got != alone.present {
				return "history:drop-decision", fmt.Sprintf("%s: record #%d (%s) delivered=%v on output %d in the sequence, delivered=%v alone", where, i, sh.name, got, o, alone.present)
			}
			if !got {
				continue
			}
			for name, v := range od.d.fields {
				if strings.Contains(v, "########") {
					return "alias:field-points-into-read-buffer", fmt.Sprintf("%s: record #%d (%s) on output %d: field %s reads %q — bytes of the reused read buffer, overwritten after the call", where, i, sh.name, o, name, clip(v))
				}
			}
			// absolute: tag and pipeline follow the record's OWN key values
			if want := ov.tagOf(sh); od.tag != want {
				return "tag:not-own-keys", fmt.Sprintf("%s: record #%d (%s) on output %d (%s) carries the tag %q; its own key values expand to %q", where, i, sh.name, o, os_.outputs[o], od.tag, want)
			}
			if want := ov.idOf(sh); od.stage.idSnap != want {
				return "route:pipeline-id-not-own-keys", fmt.Sprintf("%s: record #%d (%s) on output %d went through the pipeline with ID %q; its own key values make the ID %q", where, i, sh.name, o, od.stage.idSnap, want)
			}
			// differential: equal to the record alone (the marker aside)
			a, b := od.d, alone.outputs[o]
			a.fields, b.fields = withoutMarker(a.fields), withoutMarker(b.fields)
			if f, gotv, want := firstDiff(a, b, sh.tsFromRec); f != "" {
				return "history:" + f, fmt.Sprintf("%s: record #%d (%s) on output %d (%s): field %s = %q after this history, but %q when the record is processed alone on a fresh pipeline",
					where, i, sh.name, o, os_.outputs[o], f, clip(gotv), clip(want))
			}
		}
	}
	return checkMetrics(where, ov, seqShapes, metrics, expectedMetrics)
}

func sortedKeys(m map[string]float64) []string {
	out := make([]string, 0, len(m))
	for k := range m {
		out = append(out, k)
	}
	sort.Strings(out)
	return out
}

// labelValue extracts label="value" from a series key written by hutil.Metrics (values are %q-quoted)
func labelValue(series, label string) (string, bool) {
	i := strings.Index(series, "{")
	if i < 0 {
		return "", false
	}
	rest := series[i+1:]
	for len(rest) > 0 {
		eq := strings.IndexByte(rest, '=')
		if eq < 0 {
			return "", false
		}
		name := rest[:eq]
		rest = rest[eq+1:]
		var val string
		n, err := fmt.Sscanf(rest, "%q", &val)
		if n != 1 || err != nil {
			return "", false
		}
		quoted := fmt.Sprintf("%q", val)
		if name == label {
			return val, true
		}
		rest = strings.TrimPrefix(rest[len(quoted):], ",")
		if strings.HasPrefix(rest, "}") {
			break
		}
	}
	return "", false
}

func withoutMarker(f map[string]string) map[string]string {
	out := make(map[string]string, len(f))
	for k, v := range f {
		if k != "pid" {
			out[k] = v
		}
	}
	return out
}

// ---------------------------------------------------------------------------------------------------------------------
// enumeration

// reduced menu of the triples of the quick tier and of the mask schedules: the pooled shapes (three of one size class, two of
// them first of their key set), the two shapes of the multi-part input-stage addFields, the two truncate shapes, and the two
// release-at-input paths with a pooled-size line
var reducedNames = []string{"short", "pooled1500", "pooledP", "pooledQ", "full", "full2", "trunc", "pooled1900trunc", "indropBig", "malGarbage1500"}

func findOrch(name string) orchVariant {
	for _, ov := range orchVariants {
		if ov.name == name {
			return ov
		}
	}
	panic("harness: no orchestration " + name)
}

func findSet2(name string) outputSet {
	for _, os_ := range outputSets2 {
		if os_.name == name {
			return os_
		}
	}
	panic("harness: no output set " + name)
}

func findSchedule(name string) schedule {
	for _, sc := range schedules {
		if sc.name == name {
			return sc
		}
	}
	panic("harness: no schedule " + name)
}

func enumerateOrchestrated(ctx *seq.Ctx) {
	novs, nsets, nscheds := 3, 4, quickSchedules
	if ctx.Thorough() {
		novs, nsets, nscheds = len(orchVariants), len(outputSets2), len(schedules)
	}
	emit := func(ov orchVariant, os_ outputSet, sc schedule, idx []int) {
		if !ctx.Mine() {
			ctx.Skip()
			return
		}
		seqShapes := make([]shape2, len(idx))
		for i, x := range idx {
			seqShapes[i] = shapes2[x]
		}
		names := seqNames2(seqShapes)
		ctx.Case(fmt.Sprintf("orch/%s/%s/%s/%s", ov.name, os_.name, sc.name, names), true, names,
			func() (string, string) { return checkOrchestrated(ov, os_, seqShapes, sc) })
	}
	// every ordered pair (with repetition) and every single shape of the full menu
	for _, ov := range orchVariants[:novs] {
		for _, os_ := range outputSets2[:nsets] {
			for _, sc := range schedules[:nscheds] {
				if ov.name == "single" && sc.hold {
					continue // the singleton orchestrator sink has no buffer of its own
				}
				ctx.Group(fmt.Sprintf("orch/%s/outputs=%s/%s/len1-2", ov.name, os_.name, sc.name))
				for a := range shapes2 {
					if ctx.Stop() {
						return
					}
					if sc.name == "each-eager-endcut" {
						emit(ov, os_, sc, []int{a})
					}
					for b := range shapes2 {
						emit(ov, os_, sc, []int{a, b})
					}
				}
			}
		}
	}
	// triples
	var reduced []int
	for _, name := range reducedNames {
		for i, sh := range shapes2 {
			if sh.name == name {
				reduced = append(reduced, i)
			}
		}
	}
	all := make([]int, len(shapes2))
	for i := range all {
		all[i] = i
	}
	triples := func(ov orchVariant, os_ outputSet, sc schedule, menu []int, label string) bool {
		ctx.Group(fmt.Sprintf("orch/%s/outputs=%s/%s/len3-%s", ov.name, os_.name, sc.name, label))
		for _, a := range menu {
			for _, b := range menu {
				if ctx.Stop() {
					return false
				}
				for _, c := range menu {
					emit(ov, os_, sc, []int{a, b, c})
				}
			}
		}
		return true
	}
	if !ctx.Thorough() {
		for _, ovName := range []string{"keyset1", "single"} {
			for _, setName := range []string{"FD", "C"} {
				for _, scName := range []string{"each-eager-tickcut", "each-lag-tickcut", "two-eager-tickcut"} {
					if !triples(findOrch(ovName), findSet2(setName), findSchedule(scName), reduced, "reduced") {
						return
					}
				}
			}
		}
		return
	}
	// thorough: the triples of the full menu, and every placement of flush pauses x stage runs over the reduced menu
	for _, ov := range orchVariants {
		for _, setName := range []string{"FD", "C"} {
			for _, sc := range schedules[:quickSchedules] {
				if ov.name == "single" && sc.hold {
					continue
				}
				if !triples(ov, findSet2(setName), sc, all, "full") {
					return
				}
			}
		}
	}
	for _, ovName := range []string{"keyset1", "single"} {
		for conns := 1; conns <= 2; conns++ {
			for tick := 0; tick < 2; tick++ {
				for fm := 0; fm < 4; fm++ {
					for dm := 0; dm < 4; dm++ {
						if dm&^fm != 0 {
							continue // the stage can only run after a flush pause here
						}
						sc := schedule{name: fmt.Sprintf("mask-c%d-t%d-f%d-d%d", conns, tick, fm, dm), conns: conns, tickCut: tick == 1, masks: true, flushMask: fm, drainMask: dm}
						if !triples(findOrch(ovName), findSet2("FD"), sc, reduced, "reduced") {
							return
						}
					}
				}
			}
		}
	}
}

// debugDump prints what a case observed (VERIF_ISO_DEBUG=1 with -case <id>)
func debugDump(p *opipe, per []map[int]oDecoded, metrics map[string]float64) {
	for _, st := range p.stages {
		fmt.Fprintf(os.Stderr, "pipeline id=%q tag=%q chunks per output:", st.idSnap, st.tagSnp)
		for o := range st.chunks {
			fmt.Fprintf(os.Stderr, " %d", len(st.chunks[o]))
		}
		fmt.Fprintln(os.Stderr)
	}
	for o := range per {
		idxs := []int{}
		for i := range per[o] {
			idxs = append(idxs, i)
		}
		sort.Ints(idxs)
		for _, i := range idxs {
			fmt.Fprintf(os.Stderr, "output %d record #%d pipeline %q tag %q: %s\n", o, i, per[o][i].stage.idSnap, per[o][i].tag, clip(per[o][i].d.render(true)))
		}
	}
	for _, k := range sortedKeys(metrics) {
		fmt.Fprintf(os.Stderr, "metric %s = %v\n", k, metrics[k])
	}
	fmt.Fprintf(os.Stderr, "reused records %d, reused buffers %d, chunks %d\n", p.recHits, p.bufHits, p.nChunks)
}
