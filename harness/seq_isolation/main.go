// Command seq_isolation decides the sequential part of C12: records are isolated from each other despite pooling and
// buffer reuse.
//
// A pipeline is built the way /repo/test/pipeline.go builds it (run.ParseConfigFile, the input's composite parser with
// its extraction transforms, the transforms, one serializer + chunk maker per output) behind the REAL parser sink
// (bsupport.NewLogParsingReceiver); the stage after the parser sink repeats LogProcessingWorker.onInput statement by
// statement (select metric key set, run transforms, per output: serialize, Release, write stream). Every sequence of
// record shapes is fed to a fresh long-lived pipeline and every record's decoded output is compared with the output the
// same record gives ALONE on a fresh pipeline (differential oracle, no hand-written expectation).
package main

import (
	"bytes"
	"encoding/json"
	"fmt"
	"math/bits"
	"os"
	"path/filepath"
	"runtime"
	"runtime/debug"
	"runtime/pprof"
	"sort"
	"strings"
	"time"
	"unsafe"

	"github.com/relex/fluentlib/protocol/forwardprotocol"
	"github.com/relex/gotils/logger"
	"github.com/relex/gotils/promexporter/promreg"
	"github.com/relex/slog-agent/base"
	"github.com/relex/slog-agent/base/bsupport"
	"github.com/relex/slog-agent/defs"
	"github.com/relex/slog-agent/output/datadog"
	"github.com/relex/slog-agent/run"
	"github.com/vmihailenco/msgpack/v4"

	"slogverif/hutil"
	"slogverif/seq"
)

// ---------------------------------------------------------------------------------------------------------------------
// configuration under test

const configHead = `
schema:
  fields: [facility, level, time, host, app, pid, source, extradata, log, class, task, vhost, pnum, sev, note, origin]
  maxFields: 20
inputs:
  - type: syslog
    address: localhost:5140
    levelMapping: [off, fatal, crit, error, warn, notice, info, debug]
    extractions:
      - type: extractHead
        key: log
        pattern: '\[*\] - '
        maxLen: 100
        destKey: class
      - type: extractTail
        key: source
        pattern: :[0-9a-f-]
        maxLen: 41
        destKey: task
      - type: extractTail
        key: app
        pattern: /*
        maxLen: 100
        destKey: vhost
      - type: addFields
        fields:
          pnum: ${task[-1:]}
      - type: if
        match:
          class: !!str-any
          task: !!str-any
        then:
          - type: addFields
            fields:
              task: $task:$class
      - type: delFields
        keys: [facility, pid, extradata]
      # value-rewriting transforms at the INPUT stage (the configuration comments allow any transform there): their results
      # sit in the batch buffers of the receiver and the orchestrator sink until the pipeline serializes them, unlike the
      # same transforms in the pipeline, which run right before serialization. Only for app=trunc, so that the other
      # shapes keep reaching the pipeline with the parser's own slices.
      - type: if
        match:
          app: trunc
        then:
          - type: truncate
            key: log
            maxLen: 200
            suffix: ' ... (cut at input)'
          - type: truncate
            key: source
            maxLen: 6
            suffix: '~'
          - type: replace
            key: host
            pattern: !!regex ^host(.*)$
            replacement: HOST-$1
orchestration:
  type: byKeySet
  keys: [app]
  tag: test.$app
metricKeys: [host, vhost]
transformations:
  - type: addFields
    fields:
      sev: $level
  - type: mapValue
    key: sev
    mapping:
      error: 'ERROR (mapped constant, shared by every error record)'
      warn: 'WARNING (mapped constant, shared by every warn record)'
    default: 'OTHER (default constant, shared by all other records)'
  - type: addFields
    fields:
      note: 'static note: contact ops@example.com if this persists'
  - type: addFields
    fields:
      origin: $host/$app
  - type: switch
    cases:
      - match:
          app: trunc
        then:
          - type: truncate
            key: log
            maxLen: 40
            suffix: ' ... (cut)'
          - type: truncate
            key: sev
            maxLen: 8
            suffix: '~'
          - type: truncate
            key: note
            maxLen: 12
            suffix: ' ...'
          - type: truncate
            key: level
            maxLen: 2
            suffix: '~'
      - match:
          app: redact
        then:
          - type: redactEmail
            key: log
            metricLabel: redacted
          - type: redactEmail
            key: note
            metricLabel: redactedNote
      - match:
          app: dropme
        then:
          - type: drop
            match:
              level: !!str-not fatal
            percentage: 100
            metricLabel: dropped
  - type: block
    steps:
      - type: parseTime
        key: time
        errorLabel: timeError
      - type: delFields
        keys: [time]
outputBufferPairs:
`

const fluentdOutput = `
  - name: %s
    buffer:
      type: hybridBuffer
      rootPath: /tmp/verif-unused-buffer
      maxBufSize: 1MB
    output:
      type: fluentdForward
      serialization:
        environmentFields: [host, vhost, app, source]
        hiddenFields: [task, pnum]
        rewriteFields:
          log:
            - type: inline
              field: class
            - type: unescape
      messageMode: Forward
      upstream:
        address: localhost:24224
        tls: false
        secret: x
        maxDuration: 30m
`

const datadogOutput = `
  - name: %s
    buffer:
      type: hybridBuffer
      rootPath: /tmp/verif-unused-buffer
      maxBufSize: 1MB
    output:
      type: datadog
      serialization:
        hiddenFields: [task, pnum]
      upstream:
        address: https://example.invalid/api/v2/logs
        httpTimeout: 30s
`

type outputSet struct {
	name    string
	outputs []string // "F" fluentd, "D" datadog
}

var outputSets = []outputSet{
	{"F", []string{"F"}},
	{"FF", []string{"F", "F"}},
	{"FD", []string{"F", "D"}},
	{"D", []string{"D"}},
}

// configYAML is the configuration text of an output set
func configYAML(os_ outputSet) string {
	var sb strings.Builder
	sb.WriteString(configHead)
	for i, kind := range os_.outputs {
		if kind == "F" {
			fmt.Fprintf(&sb, fluentdOutput, fmt.Sprintf("out%d", i))
		} else {
			fmt.Fprintf(&sb, datadogOutput, fmt.Sprintf("out%d", i))
		}
	}
	return sb.String()
}

// parseConfig runs the real run.ParseConfigFile on a scratch file (removed at once). The text is PARSED anew for every
// pipeline, so that no configuration string is shared between two pipelines of this process.
func parseConfig(os_ outputSet) (run.Config, base.LogSchema) {
	return parseConfigText(hutil.ScratchRoot("seqiso"), configYAML(os_))
}

// parseConfigText parses a configuration text through a file in the scratch directory dir, which is removed
func parseConfigText(dir string, text string) (run.Config, base.LogSchema) {
	defer os.RemoveAll(dir)
	path := filepath.Join(dir, "config.yml")
	if err := os.WriteFile(path, []byte(text), 0o644); err != nil {
		panic(err)
	}
	conf, schema, _, err := run.ParseConfigFile(path)
	if err != nil {
		panic("harness: config rejected: " + err.Error())
	}
	return conf, schema
}

// ---------------------------------------------------------------------------------------------------------------------
// record shapes

type shape struct {
	name      string
	pri       string
	time      string
	host      string
	app       string
	source    string
	msg       string
	tsFromRec bool // the timestamp of the output comes from the record (false: receive time, not compared)
}

func (s shape) line() []byte {
	return []byte(fmt.Sprintf("<%s>1 %s %s %s 4242 %s [meta@1] %s", s.pri, s.time, s.host, s.app, s.source, s.msg))
}

func (s shape) hostOffset() int { return len("<"+s.pri+">1 ") + len(s.time) + 1 }

func filler(n int, seedWord string) string {
	var sb strings.Builder
	for i := 0; sb.Len() < n; i++ {
		fmt.Fprintf(&sb, "%s-%04d ", seedWord, i)
	}
	return sb.String()[:n]
}

const uuid = "123e4567-e89b-12d3-a456-426614174000"

var shapes = []shape{
	{"short", "14", "2020-01-02T03:04:05.123456+02:00", "host1", "appA", "main.log", "plain short message", true},
	{"pooled1500", "14", "2020-02-03T04:05:06.000001Z", "host2", "appA", "main.log", "big " + filler(1500, "alpha"), true},
	{"bare", "15", "2020-03-04T05:06:07Z", "-", "-", "-", "x", true},
	{"full", "12", "2020-04-05T06:07:08.5-01:00", "host3", "appB/vhost1.example.com", "task.log:" + uuid, "[MyClass ] - extraction of class, task and vhost", true},
	{"escaped", "14", "2020-05-06T07:08:09.25Z", "host4", "appA", "esc.log", `line1\nline2\ttabbed \\ backslash \x kept`, true},
	{"multiline", "14", "2020-06-07T08:09:10.75Z", "host5", "appA", "ml.log", "first line\nsecond line with literal \\n and \\t kept", true},
	{"trunc", "11", "2020-07-08T09:10:11.125Z", "host6", "trunc", "access.log", "POST /very/long/request " + filler(300, "param"), true},
	{"error", "11", "2020-08-09T10:11:12.5Z", "host7", "appA", "main.log", "an error record, not truncated", true},
	{"warn", "12", "2020-08-09T10:11:13.5Z", "host7", "appC", "main.log", "a warn record [NotAtStart] - x", true},
	{"redact", "14", "2020-09-10T11:12:13.875Z", "host8", "redact", "auth.log", "user john.doe@example.com logged in, cc bob@test.org, not-an-email@ x", true},
	{"dropped", "14", "2020-10-11T12:13:14Z", "host9", "dropme", "noise.log", "this record is dropped by a 100% drop", true},
	{"overflow", "14", "2020-11-12T13:14:15.000000001Z", "host10", "appA", "big.log", filler(4090, "ovf") + "ééééééééééééééééé tail beyond the limit", true},
	{"pooled1900trunc", "11", "2020-12-13T14:15:16.999999999Z", "host11", "trunc", "access.log", "PUT " + filler(1900, "beta"), true},
	{"badtime", "14", "-", "host12", "appA", "main.log", "timestamp missing, receive time is used", false},
}

// ---------------------------------------------------------------------------------------------------------------------
// pipeline

type decoded struct {
	ts     string
	fields map[string]string
}

func (d decoded) render(withTS bool) string {
	keys := make([]string, 0, len(d.fields))
	for k := range d.fields {
		keys = append(keys, k)
	}
	sort.Strings(keys)
	var sb strings.Builder
	if withTS {
		sb.WriteString("ts=" + d.ts + " ")
	}
	for _, k := range keys {
		fmt.Fprintf(&sb, "%s=%q ", k, d.fields[k])
	}
	return sb.String()
}

type pipeline struct {
	kinds       []string
	alloc       *base.LogAllocator
	receiver    base.MultiSinkMessageReceiver
	procCounter *base.LogProcessCounterSet
	transforms  []base.LogTransformFunc
	serializers []base.LogSerializer
	chunkMakers []base.LogChunkMaker
	chunks      [][]base.LogChunk // per output
	readBuf     []byte

	// bookkeeping
	pending   [][]int // per sink: sequence indices of the lines accepted and not yet delivered
	passOrder []int   // sequence indices of the records that passed the transforms, in processing order
	lines     map[int]shape
	// pool observation (pointer identity; the GC is off during a case, so an address is never handed out twice by the heap)
	seenRecords map[*base.LogRecord]bool
	seenBufs    map[uintptr]bool
	availRec    int
	availBuf    map[int]int
	recHits     int
	recExpected int
	bufHits     int
	bufExpected int
}

type stageSink struct {
	p    *pipeline
	sink int
}

func (p *pipeline) NewSink(_ string, _ base.ClientNumber) base.BufferReceiverSink {
	p.pending = append(p.pending, nil)
	return &stageSink{p: p, sink: len(p.pending) - 1}
}

func (s *stageSink) Tick()  {}
func (s *stageSink) Close() {}

// Accept repeats bsupport.LogProcessingWorker.onInput
func (s *stageSink) Accept(buffer []*base.LogRecord) {
	p := s.p
	// observation first: which records / backing buffers were handed out again by the allocator
	for _, record := range buffer {
		idx := p.pending[s.sink][0]
		p.pending[s.sink] = p.pending[s.sink][1:]
		sh := p.lines[idx]
		if p.seenRecords[record] {
			p.recHits++
		}
		p.seenRecords[record] = true
		size := len(sh.line())
		if size > defs.InputLogMinRecordBytesToPool {
			host := record.Fields[3]
			bufStart := uintptr(unsafe.Pointer(unsafe.StringData(host))) - uintptr(sh.hostOffset())
			if p.seenBufs[bufStart] {
				p.bufHits++
			}
			p.seenBufs[bufStart] = true
		}
		p.processed(idx, record, size)
	}
}

func (p *pipeline) processed(idx int, record *base.LogRecord, size int) {
	icounter := p.procCounter.SelectMetricKeySet(record)
	if bsupport.RunTransforms(record, p.transforms) == base.DROP {
		icounter.CountRecordDrop(record)
		p.alloc.Release(record)
		if len(p.kinds) == 1 {
			p.returned(size)
		}
		return
	}
	icounter.CountRecordPass(record)
	p.passOrder = append(p.passOrder, idx)
	for i := range p.serializers {
		stream := p.serializers[i].SerializeRecord(record)
		p.alloc.Release(record)
		p.procCounter.CountStream(i, stream)
		if maybeChunk := p.chunkMakers[i].WriteStream(stream); maybeChunk != nil {
			p.procCounter.CountChunk(i, maybeChunk)
			p.chunks[i] = append(p.chunks[i], *maybeChunk)
		}
	}
	p.returned(size)
}

func (p *pipeline) returned(size int) {
	p.availRec++
	if size > defs.InputLogMinRecordBytesToPool {
		p.availBuf[bits.Len32(uint32(size))]++
	}
}

func newPipeline(os_ outputSet) *pipeline {
	conf, schema := parseConfig(os_)
	mf := promreg.NewMetricFactory("iso_", nil, nil)
	p := &pipeline{kinds: os_.outputs, lines: map[int]shape{}, seenRecords: map[*base.LogRecord]bool{}, seenBufs: map[uintptr]bool{}, availBuf: map[int]int{}}
	p.alloc = base.NewLogAllocator(schema, len(conf.OutputBuffersPairs))
	inputConfig := conf.Inputs[0].Value
	createParser := func(parentLogger logger.Logger, inputCounter *base.LogInputCounterSet) base.LogParser {
		parser, perr := inputConfig.NewParser(parentLogger, p.alloc, schema, inputCounter)
		if perr != nil {
			panic(perr)
		}
		return parser
	}
	p.receiver = bsupport.NewLogParsingReceiver(logger.Root(), createParser, p, mf.AddOrGetPrefix("input_", nil, nil))
	names := make([]string, len(conf.OutputBuffersPairs))
	for i, pair := range conf.OutputBuffersPairs {
		names[i] = pair.Name
	}
	p.procCounter = base.NewLogProcessCounter(mf.AddOrGetPrefix("process_", nil, nil), schema, schema.MustCreateFieldLocators(conf.MetricKeys), names)
	p.transforms = bsupport.NewTransformsFromConfig(conf.Transformations, schema, logger.Root(), p.procCounter)
	for _, pair := range conf.OutputBuffersPairs {
		p.serializers = append(p.serializers, pair.OutputConfig.Value.NewSerializer(logger.Root(), schema, "test.tag"))
		p.chunkMakers = append(p.chunkMakers, pair.OutputConfig.Value.NewChunkMaker(logger.Root(), "test.tag"))
	}
	p.chunks = make([][]base.LogChunk, len(p.serializers))
	p.readBuf = make([]byte, 16*1024)
	return p
}

// run feeds the sequence; mode: "each" (one connection, flush after every record), "batch" (one connection, one flush
// at the end), "two" (two connections alternating, flush after every record), "two-batch"
func (p *pipeline) run(seqShapes []shape, mode string) (perOutput [][]decoded, err string) {
	nsinks := 1
	if strings.HasPrefix(mode, "two") {
		nsinks = 2
	}
	sinks := make([]base.MessageReceiverSink, nsinks)
	for i := range sinks {
		sinks[i] = p.receiver.NewSink(fmt.Sprintf("10.0.0.%d:1000", i+1), base.ClientNumber(i+1))
	}
	for i, sh := range seqShapes {
		p.lines[i] = sh
		k := i % nsinks
		p.pending[k] = append(p.pending[k], i)
		// model of the pools at allocation time: anything that was returned must be handed out again now
		if p.availRec > 0 {
			p.recExpected++
			p.availRec--
		}
		if size := len(sh.line()); size > defs.InputLogMinRecordBytesToPool {
			if class := bits.Len32(uint32(size)); p.availBuf[class] > 0 {
				p.bufExpected++
				p.availBuf[class]--
			}
		}
		// like the TCP reader, hand every line over in ONE reused read buffer that is only valid during the call
		n := copy(p.readBuf, sh.line())
		sinks[k].Accept(p.readBuf[:n])
		for j := range p.readBuf[:n] {
			p.readBuf[j] = '#'
		}
		if mode == "each" || mode == "two" {
			sinks[k].Flush()
		} else if strings.HasPrefix(mode, "mask") {
			// mask<bits>: a flush pause after record i iff bit i is set (every placement of flushes is enumerated)
			var bitsv int
			fmt.Sscanf(mode, "mask%d", &bitsv)
			if bitsv&(1<<uint(i)) != 0 {
				sinks[k].Flush()
			}
		}
	}
	for _, s := range sinks {
		s.Flush()
		s.Close()
	}
	for i := range p.chunkMakers {
		if maybeChunk := p.chunkMakers[i].FlushBuffer(); maybeChunk != nil {
			p.chunks[i] = append(p.chunks[i], *maybeChunk)
		}
	}
	// decode: the j-th decoded record of an output is the j-th record that passed the transforms
	perOutput = make([][]decoded, len(p.kinds))
	for i, kind := range p.kinds {
		var all []decoded
		for _, ch := range p.chunks[i] {
			var recs []decoded
			var derr error
			if kind == "F" {
				recs, derr = decodeFluentd(ch.Data)
			} else {
				recs, derr = decodeDatadog(ch.Data)
			}
			if derr != nil {
				return nil, fmt.Sprintf("output %d: chunk cannot be decoded: %v", i, derr)
			}
			all = append(all, recs...)
		}
		if len(all) != len(p.passOrder) {
			return nil, fmt.Sprintf("output %d delivered %d records, %d passed the transforms", i, len(all), len(p.passOrder))
		}
		byIndex := make([]decoded, len(seqShapes))
		for j, idx := range p.passOrder {
			byIndex[idx] = all[j]
		}
		perOutput[i] = byIndex
	}
	return perOutput, ""
}

func flatten(prefix string, v interface{}, out map[string]string) {
	switch x := v.(type) {
	case map[string]interface{}:
		for k, e := range x {
			flatten(prefix+k+".", e, out)
		}
	case string:
		out[strings.TrimSuffix(prefix, ".")] = x
	case []byte:
		out[strings.TrimSuffix(prefix, ".")] = string(x)
	default:
		out[strings.TrimSuffix(prefix, ".")] = fmt.Sprintf("(%T)%v", v, v)
	}
}

func decodeFluentd(data []byte) ([]decoded, error) {
	var message forwardprotocol.Message
	if err := msgpack.NewDecoder(bytes.NewReader(data)).Decode(&message); err != nil {
		return nil, err
	}
	var out []decoded
	for _, e := range message.Entries {
		d := decoded{ts: fmt.Sprintf("%d.%09d", e.Time.Unix(), e.Time.Nanosecond()), fields: map[string]string{"(tag)": message.Tag}}
		flatten("", map[string]interface{}(e.Record), d.fields)
		out = append(out, d)
	}
	return out, nil
}

func decodeDatadog(data []byte) ([]decoded, error) {
	var buf bytes.Buffer
	if _, err := (&datadog.Config{}).DecodeChunkToJSON(base.LogChunk{ID: "x.dd", Data: data}, []byte{0}, false, &buf); err != nil {
		return nil, err
	}
	var out []decoded
	for _, part := range bytes.Split(buf.Bytes(), []byte{0}) {
		if len(part) == 0 {
			continue
		}
		var m map[string]string
		if err := json.Unmarshal(part, &m); err != nil {
			return nil, err
		}
		d := decoded{ts: m["timestamp"] + "ms", fields: m}
		delete(m, "timestamp")
		out = append(out, d)
	}
	return out, nil
}

// ---------------------------------------------------------------------------------------------------------------------
// oracle

// firstDiff names the first field (sorted) in which two decoded records differ
func firstDiff(a, b decoded, withTS bool) (field, av, bv string) {
	if withTS && a.ts != b.ts {
		return "timestamp", a.ts, b.ts
	}
	keys := map[string]bool{}
	for k := range a.fields {
		keys[k] = true
	}
	for k := range b.fields {
		keys[k] = true
	}
	sorted := make([]string, 0, len(keys))
	for k := range keys {
		sorted = append(sorted, k)
	}
	sort.Strings(sorted)
	for _, k := range sorted {
		x, okx := a.fields[k]
		y, oky := b.fields[k]
		if okx != oky || x != y {
			if !okx {
				x = "(absent)"
			}
			if !oky {
				y = "(absent)"
			}
			return k, x, y
		}
	}
	return "", "", ""
}

func clip(s string) string {
	if len(s) > 160 {
		return s[:160] + fmt.Sprintf("...(%d bytes)", len(s))
	}
	return s
}

type aloneResult struct {
	outputs []decoded // per output; zero value if dropped
	dropped bool
	err     string
}

var aloneCache = map[string]aloneResult{}

// runAlone: one record on a fresh pipeline (memoised per process: the result is plain strings, every run parses the
// configuration anew, so the memo cannot carry pipeline state)
func runAlone(os_ outputSet, sh shape) aloneResult {
	if r, ok := aloneCache[os_.name+"/"+sh.name]; ok {
		return r
	}
	r := runAlone1(os_, sh)
	aloneCache[os_.name+"/"+sh.name] = r
	return r
}

func runAlone1(os_ outputSet, sh shape) aloneResult {
	p := newPipeline(os_)
	per, err := p.run([]shape{sh}, "each")
	if err != "" {
		return aloneResult{err: err}
	}
	r := aloneResult{dropped: len(p.passOrder) == 0}
	for i := range per {
		r.outputs = append(r.outputs, per[i][0])
	}
	return r
}

func seqNames(s []shape) string {
	names := make([]string, len(s))
	for i, sh := range s {
		names[i] = sh.name
	}
	return strings.Join(names, ",")
}

// checkSequence: every record of the sequence, on every output, equals the record alone on a fresh pipeline
func checkSequence(os_ outputSet, seqShapes []shape, mode string) (string, string) {
	defer runtime.GC() // the collector is off while a case runs (see main)
	p := newPipeline(os_)
	per, err := p.run(seqShapes, mode)
	if err != "" {
		return "pipeline:count-mismatch", fmt.Sprintf("sequence [%s] mode %s: %s", seqNames(seqShapes), mode, err)
	}
	poolStats.recHits += int64(p.recHits)
	poolStats.bufHits += int64(p.bufHits)
	poolStats.records += int64(len(seqShapes))
	passed := map[int]bool{}
	for _, idx := range p.passOrder {
		passed[idx] = true
	}
	for i, sh := range seqShapes {
		alone := runAlone(os_, sh)
		if alone.err != "" {
			return "pipeline:count-mismatch", fmt.Sprintf("record %s alone: %s", sh.name, alone.err)
		}
		if alone.dropped != !passed[i] {
			return "history:drop-decision", fmt.Sprintf("sequence [%s] mode %s: record #%d (%s) dropped=%v in the sequence, dropped=%v alone", seqNames(seqShapes), mode, i, sh.name, !passed[i], alone.dropped)
		}
		if alone.dropped {
			continue
		}
		for o := range per {
			// absolute guard next to the differential oracle: the read buffer is overwritten with '#' after every Accept, as
			// the TCP reader reuses it. No shape contains a run of '#', so a run of them in the output means a field still
			// points into the caller's read buffer — also when the record is processed alone (which the differential
			// oracle cannot see, both runs being affected alike).
			for name, v := range per[o][i].fields {
				if strings.Contains(v, "########") {
					return "alias:field-points-into-read-buffer", fmt.Sprintf("outputs %s, sequence [%s], mode %s: record #%d (%s) on output %d: field %s reads %q — bytes of the reused read buffer, overwritten after the call", os_.name, seqNames(seqShapes), mode, i, sh.name, o, name, clip(v))
				}
			}
			if f, got, want := firstDiff(per[o][i], alone.outputs[o], sh.tsFromRec); f != "" {
				return "history:" + f, fmt.Sprintf("outputs %s, sequence [%s], mode %s: record #%d (%s) on output %d (%s): field %s = %q after this history, but %q when the record is processed alone on a fresh pipeline",
					os_.name, seqNames(seqShapes), mode, i, sh.name, o, os_.outputs[o], f, clip(got), clip(want))
			}
		}
	}
	// vacuity guard: the pools must really have handed the released records / buffers out again
	if p.recHits < p.recExpected || p.bufHits < p.bufExpected {
		// not a verdict about the agent: the case is reported in the evidence notes as "reuse below the model's expectation"
		// (a changed but correct pooling policy must not raise an alarm); the differential oracle above still applied
		poolStats.belowExpectation++
	}
	return "", ""
}

var poolStats struct{ recHits, bufHits, records, belowExpectation int64 }

// checkAloneAcrossOutputs: one record alone; (a) identically configured outputs deliver identical records; (b) an
// output delivers the same record whether it is the only output or one of two
func checkAloneAcrossOutputs(sh shape) (string, string) {
	defer runtime.GC()
	res := map[string]aloneResult{}
	for _, os_ := range outputSets {
		res[os_.name] = runAlone(os_, sh)
		if res[os_.name].err != "" {
			return "pipeline:count-mismatch", fmt.Sprintf("record %s alone on %s: %s", sh.name, os_.name, res[os_.name].err)
		}
	}
	if res["F"].dropped {
		for _, os_ := range outputSets {
			if !res[os_.name].dropped {
				return "outputs:drop-decision", fmt.Sprintf("record %s dropped with outputs F but not with %s", sh.name, os_.name)
			}
		}
		return "", ""
	}
	type cmp struct {
		what       string
		key        string
		a, b       decoded
		aStr, bStr string
	}
	cmps := []cmp{
		{"two identically configured fluentd outputs", "outputs-disagree:FF", res["FF"].outputs[0], res["FF"].outputs[1], "output 0", "output 1"},
		{"fluentd as first of two (F,F) vs the only output", "multi-vs-single:FF.0", res["FF"].outputs[0], res["F"].outputs[0], "first of F,F", "only output"},
		{"fluentd as second of two (F,F) vs the only output", "multi-vs-single:FF.1", res["FF"].outputs[1], res["F"].outputs[0], "second of F,F", "only output"},
		{"fluentd as first of (F,D) vs the only output", "multi-vs-single:FD.0", res["FD"].outputs[0], res["F"].outputs[0], "first of F,D", "only output"},
		{"datadog as second of (F,D) vs the only output", "multi-vs-single:FD.1", res["FD"].outputs[1], res["D"].outputs[0], "second of F,D", "only output"},
	}
	for _, c := range cmps {
		if f, x, y := firstDiff(c.a, c.b, sh.tsFromRec); f != "" {
			return c.key + ":" + f, fmt.Sprintf("record %s alone, %s: field %s = %q on %s but %q on %s", sh.name, c.what, f, clip(x), c.aStr, clip(y), c.bStr)
		}
	}
	return "", ""
}

// ---------------------------------------------------------------------------------------------------------------------

func enumerate(ctx *seq.Ctx) {
	// part 3 comes first: a mutation may end a worker PROCESS by a panic in a goroutine of the shipped pipeline; the death is
	// attributed to the case in flight, but the results the process had collected until then are lost
	enumerateReal(ctx)
	ctx.Group("alone/across-outputs")
	for _, sh := range shapes {
		sh := sh
		ctx.Case("alone/"+sh.name, true, string(sh.line()[:min(len(sh.line()), 200)]), func() (string, string) { return checkAloneAcrossOutputs(sh) })
	}
	maxLen := 3
	modes := []string{"each", "batch", "two"}
	if ctx.Thorough() {
		maxLen = 4
		modes = []string{"each", "batch", "two", "two-batch"}
	}
	for _, os_ := range outputSets {
		for _, mode := range modes {
			for l := 1; l <= maxLen; l++ {
				if l == 1 && mode != "each" {
					continue
				}
				ctx.Group(fmt.Sprintf("seq/outputs=%s/mode=%s/len%d", os_.name, mode, l))
				idx := make([]int, l)
				for {
					if ctx.Stop() {
						return
					}
					if ctx.Mine() {
						seqShapes := make([]shape, l)
						names := make([]string, l)
						for i, x := range idx {
							seqShapes[i] = shapes[x]
							names[i] = shapes[x].name
						}
						os2, mode2 := os_, mode
						ctx.Case(fmt.Sprintf("seq/%s/%s/%s", os_.name, mode, strings.Join(names, ",")), l > 1, strings.Join(names, ","),
							func() (string, string) { return checkSequence(os2, seqShapes, mode2) })
					} else {
						ctx.Skip()
					}
					i := l - 1
					for i >= 0 {
						idx[i]++
						if idx[i] < len(shapes) {
							break
						}
						idx[i] = 0
						i--
					}
					if i < 0 {
						break
					}
				}
			}
		}
	}
	// all sequences of length <= 4 over {short, two pooled-size shapes of one size class, a larger pooled one} x EVERY
	// placement of flush pauses between the records (batch boundaries decide which records are alive together)
	var reduced []shape
	for _, sh := range shapes {
		switch sh.name {
		case "short", "pooled1500", "pooled1900trunc", "overflow":
			reduced = append(reduced, sh)
		}
	}
	second := reduced[1]
	second.name, second.host, second.msg = "pooled1500b", "hostB", "BIG "+filler(1500, "omega")
	reduced = append(reduced, second)
	for _, os_ := range outputSets[:2] {
		for l := 2; l <= 4; l++ {
			ctx.Group(fmt.Sprintf("flushmask/outputs=%s/len%d", os_.name, l))
			idx := make([]int, l)
			for {
				for mask := 0; mask < 1<<uint(l-1); mask++ {
					seqShapes := make([]shape, l)
					names := make([]string, l)
					for i, x := range idx {
						seqShapes[i] = reduced[x]
						names[i] = reduced[x].name
					}
					os2, mode2 := os_, fmt.Sprintf("mask%d", mask)
					ctx.Case(fmt.Sprintf("flushmask/%s/%s/%s", os_.name, mode2, strings.Join(names, ",")), true, strings.Join(names, ","),
						func() (string, string) { return checkSequence(os2, seqShapes, mode2) })
				}
				i := l - 1
				for i >= 0 {
					idx[i]++
					if idx[i] < len(reduced) {
						break
					}
					idx[i] = 0
					i--
				}
				if i < 0 {
					break
				}
			}
		}
	}
	enumerateOrchestrated(ctx)
	ctx.Note(fmt.Sprintf("pool-reuse/worker-pid-%d", os.Getpid()), fmt.Sprintf("%d records processed in sequences, %d reused *LogRecord, %d reused backing buffers, %d cases with reuse below the pool model's expectation", poolStats.records, poolStats.recHits, poolStats.bufHits, poolStats.belowExpectation))
	ctx.Note(fmt.Sprintf("orchestrated/worker-pid-%d", os.Getpid()), fmt.Sprintf("%d cases through the real orchestrators with the harness's stage: %d lines, %d pipelines, %d chunks (%d cases with more than one chunk of one output of one pipeline), %d reused *LogRecord, %d reused backing buffers; %d cases through StartOrchestrator (shipped worker goroutine and hybrid buffer): %d chunks, %d of them read back from the queue directories, %d cases with more than one chunk of an output",
		ostats.cases, ostats.records, ostats.pipelines, ostats.chunks, ostats.multiChunkCases, ostats.recHits, ostats.bufHits, rstats.cases, rstats.chunks, rstats.diskChunks, rstats.multiChunkCases))
}

var logCap = &hutil.LogCapture{}

func main() {
	logger.SetOutput(logCap)
	logger.SetLogLevel(logger.ErrorLevel)
	// pooling must be deterministic: one P (sync.Pool keeps per-P caches) and no collection while a case runs (a GC
	// cycle empties sync.Pool); every case ends with an explicit runtime.GC()
	runtime.GOMAXPROCS(1)
	debug.SetGCPercent(-1)
	if path := os.Getenv("VERIF_ISO_PROF"); path != "" { // developer aid: CPU profile of one worker process
		if f, err := os.Create(path); err == nil {
			pprof.StartCPUProfile(f)
			defer pprof.StopCPUProfile()
		}
	}
	// limits scaled down (buffer sizes only): message limit 4096 bytes, so that the "overflow" shape is cut by the parser
	defs.InputLogMaxMessageBytes = 4096
	defs.InputLogMaxRecordBytes = defs.InputLogMaxMessageBytes + 256
	{
		seq.Main(&seq.Config{
			Property: "C12",
			Level:    "exploration",
			Rule: "PART 1 (stage directly behind the parser sink): all sequences with repetition of length <= 3 (quick) / <= 4 (thorough) over a menu of 14 record shapes (short, pooled 1500 B, bare, full extraction, escaped, multi-line, truncate trigger, error/warn for mapValue, redactEmail, 100% drop, over-limit message, pooled 1900 B + truncate, missing timestamp) " +
				"x output sets {fluentd, fluentd+fluentd, fluentd+datadog, datadog} x feeding modes {one connection flush-per-record, one connection single flush, two connections alternating (thorough: + two connections single flush)} on one fresh long-lived pipeline behind the real parser sink; plus all sequences of length 2..4 over 5 pooled/short shapes x every placement of flush pauses; " +
				"each record's decoded output (all fields incl. nested environment, tag, exact timestamp) is compared per output with the same record processed alone on a fresh pipeline; plus per shape: identically configured outputs agree, and an output gives the same record alone or next to another output. " +
				"PART 2 (the REAL orchestrators obykeyset / osingleton between the real parser sink and the stage; widened input stage: visible multi-part addFields, extract, mapValue, truncate, replace, redactEmail, unescape and a 100% drop among the input extractions): every ordered pair with repetition and every single line over a menu of 29 lines (25 record shapes: two distinct shapes for every stateful path, three pooled shapes of one size class two of which are the first of their key set, input-stage drop short and pooled; 4 malformed lines short and pooled) " +
				"x orchestration {byKeySet keys [app] tag test.$app, byKeySet keys [app] tag $app, singleton; thorough: + byKeySet keys [app,source]} x output sets {fluentd Forward, fluentd+datadog, datadog, fluentd CompressedPackedForward; thorough: + fluentd+fluentd, compressed+datadog} " +
				"x schedules {flush per line with the stage keeping up / lagging one batch behind / orchestrator sink holding everything until close, single flush, two connections alternating keeping up / lagging; chunks cut after every batch or only at the end; thorough: + 3 more}; triples over a reduced menu of 10 lines (quick; thorough: all triples of the full menu and every placement of flush pauses x stage runs x cut policy x {1,2} connections over the reduced menu). " +
				"Per case: every chunk of every pipeline is kept as handed out and decoded only at the end (a queued chunk must not change); records are assigned to lines by the PID field; each record equals the record alone (differential), its tag and pipeline ID are the documented expansion of its OWN key values (absolute), the pipeline's tag / ID strings read at the end as at creation, a record does not change while it waits in the orchestrator, no *LogRecord is handed over twice, the batch slice is overwritten after Accept returns, the line buffer is overwritten after every call; every per-record counter series (labels included) is the sum of the series of the records alone and every orchestration key label is a key value of a record of the sequence. " +
				"PART 3 (Config.StartOrchestrator: shipped LogProcessingWorker goroutine, PrepareSequentialPipeline, hybrid buffer; only the consumer is the harness's): every ordered pair of the 29 lines x {byKeySet+fluentd+datadog, singleton+fluentd+datadog, byKeySet($app)+compressed, singleton+compressed} x {2 ms flush interval with pauses, 1 h flush interval without pauses} (thorough: more combinations, two connections), same oracle, chunks taken from the consumer and from the queue directories. " +
				"non-trivial = sequences of length >= 2, the across-outputs cases and every case of parts 2 and 3; parts 1 and 2 also observe (pointer identity) that released records/backing buffers were handed out again",
			Assumptions: []string{
				"the stage behind the real parser sink (part 1) / behind the real orchestrator (part 2) repeats LogProcessingWorker.onInput (select metric key set, transforms, per output serialize+Release+WriteStream) synchronously; part 3 runs the shipped worker instead",
				"GOMAXPROCS(1) and GC disabled during a case make sync.Pool reuse deterministic; reuse is verified per case by pointer identity, not assumed",
				"the configuration file is parsed anew for every pipeline, so configuration strings are never shared between the long-lived and the fresh pipelines",
				"the timestamp of the 'badtime' shape is the receive time and is not compared; defs.InputLogMaxMessageBytes scaled to 4096",
				"two outputs with the same configuration must deliver identical records, and an output's record must not depend on which other outputs exist (outputs are documented as independent serializations of the same record)",
				"part 2: the pipeline starter handed to obykeyset.NewOrchestrator / osingleton.NewOrchestrator builds what obase.PrepareSequentialPipeline builds, without bufferer, consumer and goroutine; the two constructors are called with the arguments Config.StartOrchestrator gives them (no recovery of queue directories: C06); the harness takes the batches out of the pipeline channels itself (default capacity 1): 'keeping up' = after every flush pause, 'lagging' = only when the channel must take the next batch, or at the end",
				"part 2: defs.IntermediateFlushInterval is 0 (every flush pause forwards the orchestrator sink's buffers) or 1 h ('hold'); chunks are cut by FlushBuffer after a batch (what onTick does) or at the end (onStop)",
				"the PID field of line i is 4200+i (fixed width) and is left out of the differential comparison; reference values: app after `extractTail /*` is the part before the slash, host of app=trunc after `replace` is HOST-<n>, pipeline ID of one key = the key value, of two keys = 'a,b' (config_sample.yml: [app, level] => sshd,info), singleton: empty ID and the static tag",
				"metrics: only the per-record counter families (passed/dropped/labelled records and bytes, serialized bytes) are compared additively; chunk counters depend on where chunks are cut and belong to C19",
				"part 3: the schedule is given by real time and not controlled; the verdict does not depend on it. defs.BufferMaxNumChunksInQueue scaled to 64 (channel capacity only). Mutations that need two goroutines inside one critical section at the same time (a torn Release, scratch memory shared by two connection goroutines) are out of reach of this sequential harness",
			},
			Enumerate:        enumerate,
			QuickDeadline:    20 * time.Minute, // a safety net: machine load must not silently cut coverage
			ThoroughDeadline: 45 * time.Minute,
		})
	}
}
