// Command seq_stream is the stream level of C07: the real tcplistener.multiLineReader (with the real record-start test) is
// fed TCP byte streams in which a bad stretch sits between well-formed records: S1, BAD, S2, S3. Every 1-cut and 2-cut
// fragmentation of every stream is enumerated, with and without flush ticks between the reads. The well-formed records that
// surround the bad input must come out intact: bad input may be rejected, cut or attached to the record BEFORE it (that is
// what a continuation line is), but it must never damage the records behind it and never wedge or crash the reader.
//
// Every unit the framer emits is handed - as runConnection does - to the Accept of a real LogParsingReceiver sink (real
// syslog parser); what the parser passes on is captured. So the parser sees exactly the units the real framer produces
// (the empty unit, lumps, records with attached garbage lines, cut records).
package main

import (
	"bytes"
	"fmt"
	"io"
	"strings"
	"time"

	"github.com/relex/gotils/logger"
	"github.com/relex/gotils/promexporter/promreg"
	"github.com/relex/slog-agent/base"
	"github.com/relex/slog-agent/base/bsupport"
	"github.com/relex/slog-agent/input/syslogparser"
	"github.com/relex/slog-agent/input/syslogprotocol"
	"github.com/relex/slog-agent/input/tcplistener"

	"slogverif/seq"
)

const (
	softLimit = 64
	bufSize   = 256 // = 4 * softLimit, the shipped proportion (ListenerLineBufferSize = 4 * InputLogMaxRecordBytes)
)

const recLen = 44

func rec(n int, tag string) string {
	s := fmt.Sprintf("<13>1 2020-01-02T03:04:05Z host app %d id - %s", n, tag)
	for len(s) < recLen {
		s += "."
	}
	return s
}

// msgOf is the message part of a record built by rec.
func msgOf(s string) string { return s[strings.Index(s, " - ")+3:] }

type badKind struct {
	name string
	data string // inserted between S1\n and S2\n ; must end with \n unless it is a pure-newline kind
}

func kinds() []badKind {
	long := func(n int, c byte) string { return strings.Repeat(string([]byte{c}), n) + "\n" }
	k := []badKind{
		{"none", ""},
		{"garbage-line", "this is not a syslog record at all, just text\n"},
		{"empty-lines", "\n\n\n"},
		{"binary", "\x00\x01\xff\xfe<13>\x00\n"},
		{"short-head", "<13>1 short\n"},
		{"head-prefix-only", "<13>1 \n"},
		{"lt-only", "<\n"},
		{"nul-run", strings.Repeat("\x00", 40) + "\n"},
		{"cr-lf", "garbage with carriage return\r\n"},
	}
	// over-long lines around every structural size: the soft limit, the free space left after the first record, the
	// buffer, and multiples of it
	for _, n := range []int{softLimit - 1, softLimit, softLimit + 1, bufSize - softLimit - 46, bufSize - softLimit - 45, bufSize - softLimit - 44,
		bufSize - 46, bufSize - 45, bufSize - 44, bufSize - 1, bufSize, bufSize + 1, 2*bufSize - 1, 2 * bufSize, 2*bufSize + 1, 3*bufSize + 7} {
		k = append(k, badKind{fmt.Sprintf("long-line-%d", n), long(n, 'L')})
	}
	// an over-long valid-looking record (a head followed by a huge message)
	for _, n := range []int{bufSize - 50, bufSize, 2*bufSize + 3} {
		k = append(k, badKind{fmt.Sprintf("long-record-%d", n), rec(7, "BIG") + strings.Repeat("M", n) + "\n"})
	}
	// heads of every PRI width that stop short of a record (a record cut behind its version / first fields), followed by a
	// run of them (each one is tested as a possible record start with earlier lines in the buffer)
	k = append(k,
		badKind{"pri1-head-only", "<1>1\n"},
		badKind{"pri3-head-only", "<123>1\n"},
		badKind{"pri3-short-head", "<123>1 short\n"},
		badKind{"pri-heads-run", "<1>1\n<12>1\n<123>1\n<1234>1\n<123>1 \n<123\n"},
	)
	return k
}

// ------------------------------------------------------------------------------------------------------------------
// the parser behind the framer

type parsed struct{ host, app, pid, source, log string }

// parseRig is one long-lived LogParsingReceiver with one sink (one "connection"), as tcpLineListener.runConnection uses it.
type parseRig struct {
	alloc      *base.LogAllocator
	sink       base.MessageReceiverSink
	got        []parsed
	pass, drop interface{ Get() uint64 }
	p0, d0     uint64
	loc        struct{ host, app, pid, source, log base.LogFieldLocator }
	cases      int
}

type capRecv struct{ rig *parseRig }

func (c capRecv) NewSink(string, base.ClientNumber) base.BufferReceiverSink { return c }
func (c capRecv) Tick()                                                     {}
func (c capRecv) Close()                                                    {}
func (c capRecv) Accept(buffer []*base.LogRecord) {
	r := c.rig
	for _, lr := range buffer {
		f := lr.Fields
		r.got = append(r.got, parsed{strings.Clone(r.loc.host.Get(f)), strings.Clone(r.loc.app.Get(f)), strings.Clone(r.loc.pid.Get(f)),
			strings.Clone(r.loc.source.Get(f)), strings.Clone(r.loc.log.Get(f))})
		r.alloc.Release(lr)
	}
}

func newParseRig() *parseRig {
	schema := base.MustNewLogSchema([]string{"facility", "level", "time", "host", "app", "pid", "source", "extradata", "log"})
	r := &parseRig{alloc: base.NewLogAllocator(schema, 1)}
	r.loc.host, r.loc.app, r.loc.pid = schema.MustCreateFieldLocator("host"), schema.MustCreateFieldLocator("app"), schema.MustCreateFieldLocator("pid")
	r.loc.source, r.loc.log = schema.MustCreateFieldLocator("source"), schema.MustCreateFieldLocator("log")
	factory := promreg.NewMetricFactory("v_", nil, nil)
	mc := factory.AddOrGetPrefix("input_", []string{"protocol"}, []string{"syslog"})
	createParser := func(l logger.Logger, ic *base.LogInputCounterSet) base.LogParser {
		return syslogparser.MustNewParser(l, r.alloc, schema, nil, ic)
	}
	recv := bsupport.NewLogParsingReceiver(logger.Root(), createParser, capRecv{r}, mc)
	r.sink = recv.NewSink("10.0.0.1:1001", 1)
	r.pass = mc.AddOrGetCounter("passed_records_total", "", nil, nil)
	r.drop = mc.AddOrGetCounter("dropped_records_total", "", nil, nil)
	return r
}

// begin starts the observation of one stream.
func (r *parseRig) begin() {
	r.got = r.got[:0]
	r.p0, r.d0 = r.pass.Get(), r.drop.Get()
	r.cases++
}

// the rig of this worker process; replaced after any violation (its state may be broken) and every 4096 streams
var rig *parseRig

func theRig() *parseRig {
	if rig == nil || rig.cases >= 4096 {
		rig = newParseRig()
	}
	return rig
}

// ------------------------------------------------------------------------------------------------------------------

// readObs is what is seen of one Read call that delivered bytes.
type readObs struct {
	total int  // bytes of the stream read so far, this read included
	held  int  // bytes in the reader's buffer once this read had been appended (before any record was taken out)
	reset bool // the reader emptied its buffer in this call (offsetAppend back to 0): the overflow path
}

type outcome struct {
	units [][]byte
	reads []readObs
	wedge string
}

// run feeds the stream cut at the given offsets; flushMask bit i = a Flush() after fragment i.
func run(stream []byte, cuts []int, flushMask int) *outcome {
	out := &outcome{}
	pr := theRig()
	pr.begin()
	var frags [][]byte
	prev := 0
	for _, c := range cuts {
		frags = append(frags, stream[prev:c])
		prev = c
	}
	frags = append(frags, stream[prev:])
	fi, off, total, lastN := 0, 0, 0, 0
	read := func(p []byte) (int, error) {
		lastN = 0
		for fi < len(frags) && off == len(frags[fi]) {
			return 0, errFragmentEnd
		}
		if fi >= len(frags) {
			return 0, io.EOF
		}
		n := copy(p, frags[fi][off:])
		off += n
		total += n
		lastN = n
		return n, nil
	}
	consume := func(s []byte) {
		out.units = append(out.units, append([]byte(nil), s...))
		pr.sink.Accept(s)
	}
	r := tcplistener.VerifNewMultiLineReader(read, syslogprotocol.TestRecordStart, bufSize, softLimit, consume)
	steps := 0
	for fi < len(frags) {
		_, before, _ := r.Offsets()
		err := r.Read()
		if lastN > 0 {
			_, after, _ := r.Offsets()
			out.reads = append(out.reads, readObs{total, before + lastN, after == 0})
		}
		steps++
		if steps > 10*len(stream)+100 {
			out.wedge = "read loop makes no progress"
			return out
		}
		if err == errFragmentEnd {
			// end of a TCP segment: the next read would block; a flush tick may fall here
			if flushMask&(1<<uint(fi)) != 0 {
				r.Flush()
				pr.sink.Flush()
			}
			fi++
			off = 0
		}
	}
	r.FlushAll()
	pr.sink.Flush()
	return out
}

var errFragmentEnd = fmt.Errorf("fragment end")

// expect says which of the three records stand behind bad input (and must therefore come out byte-identical); the others
// may have later lines attached (continuation lines) and are recognised by their own bytes coming first.
type expect struct {
	s1Exact, s2Exact, s3Exact bool
}

var middle = expect{false, true, true} // S1, BAD, S2, S3

// knownKey is the one class of damage that is a known finding: see overflowExplains.
const knownKey = "record-directly-behind-bad-input-lost-or-cut:after-oversized-input"

func check(stream []byte, s1, s2, s3 string, cuts []int, flushMask int, ex expect) (key, msg string) {
	fine := false
	defer func() {
		if !fine {
			rig = nil // after a violation or a panic the parser side may be in any state
		}
	}()
	key, msg = check1(stream, s1, s2, s3, cuts, flushMask, ex)
	fine = key == ""
	return key, msg
}

func check1(stream []byte, s1, s2, s3 string, cuts []int, flushMask int, ex expect) (string, string) {
	out := run(stream, cuts, flushMask)
	units := out.units
	if out.wedge != "" {
		return "wedge", out.wedge
	}
	count := func(want string, exact bool) (n int) {
		for _, u := range units {
			if exact && string(u) == want {
				n++
			}
			if !exact && bytes.HasPrefix(u, []byte(want)) {
				n++
			}
		}
		return n
	}
	describe := func() string {
		var parts []string
		for _, u := range units {
			x := string(u)
			if len(x) > 70 {
				x = x[:60] + fmt.Sprintf("...(%d bytes)", len(u))
			}
			parts = append(parts, fmt.Sprintf("%q", x))
		}
		return strings.Join(parts, " | ")
	}
	// S1 stands in front of the bad input: it comes out once, beginning with its own bytes (bad lines behind it may be
	// attached as continuation lines — that is the documented multi-line behaviour)
	if n := count(s1, ex.s1Exact); n != 1 {
		return "record-before-bad-input", fmt.Sprintf("the record in front of the bad input came out %d times; units: %s", n, describe())
	}
	// S2 and S3 stand behind the bad input: each comes out exactly once and byte-identical
	if n := count(s2, ex.s2Exact); n != 1 {
		if ex.s2Exact && n == 0 && count(s2, false) == 0 {
			if why := overflowExplains(stream, out, s2, s3); why == "" {
				return knownKey, fmt.Sprintf("the well-formed record directly behind the bad input was cut at a point where the reader emptied its full buffer; units: %s", describe())
			} else {
				return "record-directly-behind-bad-input-lost-or-cut:not-the-documented-overflow-cut", fmt.Sprintf("the well-formed record directly behind the bad input is missing (%s); units: %s", why, describe())
			}
		}
		return "record-directly-behind-bad-input-damaged", fmt.Sprintf("the well-formed record directly behind the bad input came out intact %d times; units: %s", n, describe())
	}
	if n := count(s3, ex.s3Exact); n != 1 {
		return "second-record-behind-bad-input-damaged", fmt.Sprintf("the second well-formed record behind the bad input came out intact %d times; units: %s", n, describe())
	}
	// ---- the parser behind the framer: every unit counted once, what it passes is delivered, the three records arrive whole
	pr := rig
	dp, dd := int(pr.pass.Get()-pr.p0), int(pr.drop.Get()-pr.d0)
	if dp+dd != len(units) {
		return "parse:unit-not-counted-once", fmt.Sprintf("the framer emitted %d units, the parser counted passed=%d dropped=%d; units: %s", len(units), dp, dd, describe())
	}
	if dp != len(pr.got) {
		return "parse:passed-differs-from-delivered", fmt.Sprintf("the parser counted %d passed records and handed %d on; units: %s", dp, len(pr.got), describe())
	}
	for i, s := range []string{s1, s2, s3} {
		exact := []bool{ex.s1Exact, ex.s2Exact, ex.s3Exact}[i]
		f := strings.SplitN(s, " ", 8)
		n := 0
		for _, g := range pr.got {
			if g.host == f[2] && g.app == f[3] && g.pid == f[4] && g.source == f[5] && (g.log == msgOf(s) || !exact && strings.HasPrefix(g.log, msgOf(s)+"\n")) {
				n++
			}
		}
		if n != 1 {
			return "parse:well-formed-record-not-delivered-whole", fmt.Sprintf("record %d (%q) was emitted whole by the framer but the parser handed it on %d times (with its own header fields and message); parsed: %+v", i+1, s, n, pr.got)
		}
	}
	return "", ""
}

// overflowExplains decides whether the loss of S2 is the documented overflow behaviour of the line buffer ("If the size is
// insufficient to hold one log, the rest of it is cut off": when less than one record limit of space is left, the reader
// hands over what it holds - unfinished last line included - and starts again with an empty buffer). It is, if and only if
//   - S2 was split at ONE offset c, 0 < c < len(S2): no unit carries bytes of S2 except (optionally) one unit that ENDS with
//     S2[:c] (S2[:c] alone = "cut in two", or a lump ending in "\n"+S2[:c]) and (optionally) one unit that IS S2[c:];
//   - S3 and everything else is as required (checked by the caller before / after);
//   - the split point is the end of a Read call in which the reader emptied its buffer (observed: append offset back to 0),
//   - and at that moment the buffer held more than size - limit bytes (the arithmetic of the documented rule).
//
// Returns "" if so, else what does not fit.
func overflowExplains(stream []byte, out *outcome, s2, s3 string) string {
	s2start := bytes.Index(stream, []byte(s2+"\n"+s3))
	if s2start < 0 {
		return "harness: S2 not found in the stream"
	}
	// candidate split points: resets inside S2
	for _, rd := range out.reads {
		c := rd.total - s2start
		if !rd.reset || c <= 0 || c >= len(s2) {
			continue
		}
		if rd.held <= bufSize-softLimit {
			return fmt.Sprintf("the reader emptied its buffer %d bytes into the record while holding only %d bytes (buffer %d, limit %d)", c, rd.held, bufSize, softLimit)
		}
		head, tail := s2[:c], s2[c:]
		// every unit that has anything of S2 must be the head-carrier or the tail
		heads, tails := 0, 0
		for _, u := range out.units {
			us := string(u)
			switch {
			case us == tail:
				tails++
			case us == head || strings.HasSuffix(us, "\n"+head):
				heads++
			case strings.Contains(us, s2[:8]) && strings.Contains(us, "host app 2 "):
				return "a unit carries the head of the record in another form"
			case len(tail) >= 6 && strings.Contains(us, tail):
				return "a unit carries the rest of the record in another form"
			}
		}
		if heads > 1 || tails > 1 {
			return fmt.Sprintf("the head of the record came out %d times and its rest %d times", heads, tails)
		}
		return ""
	}
	return "no Read call ended inside the record with the reader emptying its buffer"
}

func enumerate(ctx *seq.Ctx) {
	s1, s2, s3 := rec(1, "first"), rec(2, "second"), rec(3, "third")
	for _, k := range kinds() {
		stream := []byte(s1 + "\n" + k.data + s2 + "\n" + s3 + "\n")
		n := len(stream)
		ctx.Group("stream/" + k.name)
		masks := func(nfrag int) []int {
			if ctx.Thorough() {
				m := make([]int, 1<<uint(nfrag))
				for i := range m {
					m[i] = i
				}
				return m
			}
			return []int{0, 1<<uint(nfrag) - 1} // no flush at all / a flush tick after every segment
		}
		emit := func(cuts []int) {
			for _, m := range masks(len(cuts) + 1) {
				if !ctx.Mine() {
					ctx.Skip()
					continue
				}
				cc, mm := append([]int(nil), cuts...), m
				ctx.Case(fmt.Sprintf("%s/cuts%v/flush%d", k.name, cc, mm), k.name != "none", k.name, func() (string, string) {
					return check(stream, s1, s2, s3, cc, mm, middle)
				})
			}
		}
		emit(nil)
		for a := 1; a < n; a++ {
			emit([]int{a})
		}
		// all 2-cut fragmentations (for the long streams: quick takes every cut pair with the first cut in the first 200
		// bytes or within 3 bytes of a structural position; thorough takes all)
		for a := 1; a < n; a++ {
			if ctx.Stop() {
				return
			}
			for b := a + 1; b < n; b++ {
				if !ctx.Thorough() && n > 400 && !(near(a, n, len(s1)+1, len(k.data)) && near(b, n, len(s1)+1, len(k.data))) {
					continue
				}
				emit([]int{a, b})
			}
		}
	}
	enumShortLines(ctx, s1, s2, s3)
}

// enumShortLines: every string X over {<,1,9,>,space,-,a} up to length 6 (thorough 7) - all heads of one to four PRI digits
// that stop short of a record are among them - as a line of its own in four places of a stream of well-formed records.
// One case = one X in all places:
//
//	front         X \n S1 \n S2 \n S3 \n            (X is the first thing a connection sends)
//	middle        S1 \n X \n S2 \n S3 \n            (no cut, no flush: X is tested with earlier lines in the buffer)
//	middle/flush  [S1 \n] [X \n] [S2 \n S3 \n]      (a flush tick after every segment: X is what a flush finds)
//	tail          [S1 \n S2 \n S3 \n] [X]           (flush after the first segment, then the client disconnects: X is the
//	                                                 unfinished last line at the final flush)
//	tail/attached S1 \n S2 \n S3 \n X               (no flush: X ends the stream behind S3)
func enumShortLines(ctx *seq.Ctx, s1, s2, s3 string) {
	const alphabet = "<19> -a"
	maxLen := 6
	if ctx.Thorough() {
		maxLen = 7
	}
	all := s1 + "\n" + s2 + "\n" + s3 + "\n"
	for l := 0; l <= maxLen; l++ {
		ctx.Group(fmt.Sprintf("short-line/len%d", l))
		idx := make([]int, l)
		for {
			if ctx.Stop() {
				return
			}
			if ctx.Mine() {
				b := make([]byte, l)
				for i, x := range idx {
					b[i] = alphabet[x]
				}
				x := string(b)
				ctx.Case("short-line/"+x, true, x, func() (string, string) {
					type place struct {
						name   string
						stream string
						cuts   []int
						mask   int
						ex     expect
					}
					places := []place{
						{"front", x + "\n" + all, nil, 0, expect{false, true, true}},
						{"middle", s1 + "\n" + x + "\n" + s2 + "\n" + s3 + "\n", nil, 0, middle},
						{"middle/flush", s1 + "\n" + x + "\n" + s2 + "\n" + s3 + "\n", []int{len(s1) + 1, len(s1) + 1 + len(x) + 1}, 7, expect{true, true, true}},
						{"tail/attached", all + x, nil, 0, expect{true, true, false}},
					}
					if len(x) > 0 {
						places = append(places, place{"tail", all + x, []int{len(all)}, 3, expect{true, true, true}})
					}
					for _, p := range places {
						if key, msg := check([]byte(p.stream), s1, s2, s3, p.cuts, p.mask, p.ex); key != "" {
							return key, "place " + p.name + ": " + msg
						}
					}
					return "", ""
				})
			} else {
				ctx.Skip()
			}
			i := l - 1
			for i >= 0 {
				idx[i]++
				if idx[i] < len(alphabet) {
					break
				}
				idx[i] = 0
				i--
			}
			if i < 0 {
				break
			}
		}
	}
}

// near reports whether offset x lies within 3 bytes of a structural position of a long stream: its start, the start and
// end of the bad stretch, multiples of the buffer size and of buffer-minus-limit, its end.
func near(x, n, badStart, badLen int) bool {
	pos := []int{0, badStart, badStart + badLen, n, badStart + badLen + 45, badStart + badLen + 90}
	for m := 1; m*bufSize <= n+bufSize; m++ {
		pos = append(pos, m*bufSize, m*(bufSize-softLimit), badStart+m*bufSize, badStart+m*(bufSize-softLimit))
	}
	for _, p := range pos {
		if x >= p-3 && x <= p+3 {
			return true
		}
	}
	return false
}

func main() {
	logger.SetLogLevel(logger.ErrorLevel)
	seq.Main(&seq.Config{
		Property: "C07",
		Level:    "exploration",
		Rule: "stream level: streams S1, BAD, S2, S3 through the real multiLineReader + syslogprotocol.TestRecordStart at scaled sizes (soft limit 64, buffer 256 = the shipped 1:4 proportion), every emitted unit handed on to the " +
			"Accept of a real LogParsingReceiver sink (real syslog parser, one long-lived instance per worker process) whose output is captured; BAD from a menu of 32 kinds " +
			"(garbage, empty lines, binary, partial heads of every PRI width, NUL runs, over-long lines and over-long records at every structural size around limit / free space / buffer / multiples); ALL 1-cut and 2-cut fragmentations " +
			"(streams over 400 bytes in the quick tier: cut pairs near structural positions) x {no flush, flush tick after every segment} (thorough: every flush placement); plus every string over {<,1,9,>,space,-,a} of length 0-6 " +
			"(thorough 0-7) as a line of its own in front of, between and behind the records and as the unfinished last line at a disconnect; " +
			"oracle: no wedge/panic (framer, record-start test, parser), S1 once with its own bytes first, S2 and S3 exactly once and byte-identical, every emitted unit counted once by the parser (passed + dropped), " +
			"passed = handed on, and S1 / S2 / S3 handed on once each with their own header fields and message; non-trivial = every case with a bad stretch",
		Assumptions: []string{
			"bad lines may be attached to the record in front of them (continuation lines) or rejected; only the records BEHIND the bad input must be exact",
			"flush ticks fall between TCP segments only (all runConnection can do)",
			"the parser behind the scaled framer runs with the shipped limits of defs (it never cuts a unit of at most 256 bytes): no panic, accounting and the delivery of the three records are what is judged there",
			"the known-finding key " + knownKey + " is given only to the documented overflow cut: S2 split at ONE offset, that offset being the end of a Read call in which the reader emptied its buffer " +
				"while holding more than buffer - limit bytes (observed through the diagnostic accessor Offsets), nothing else of S2 in any unit; every other loss of S2 has the key ...lost-or-cut:not-the-documented-overflow-cut or ...damaged",
		},
		Enumerate:        enumerate,
		QuickDeadline:    20 * time.Minute,
		ThoroughDeadline: 45 * time.Minute,
	})
}
