// Command seq_stream is the stream level of C07: the real tcplistener.multiLineReader (with the real record-start test) is
// fed TCP byte streams in which a bad stretch sits between well-formed records: S1, BAD, S2, S3. Every 1-cut and 2-cut
// fragmentation of every stream is enumerated, with and without flush ticks between the reads. The well-formed records that
// surround the bad input must come out intact: bad input may be rejected, cut or attached to the record BEFORE it (that is
// what a continuation line is), but it must never damage the records behind it and never wedge or crash the reader.
package main

import (
	"bytes"
	"fmt"
	"io"
	"strings"

	"github.com/relex/gotils/logger"
	"github.com/relex/slog-agent/input/syslogprotocol"
	"github.com/relex/slog-agent/input/tcplistener"

	"slogverif/seq"
)

const (
	softLimit = 64
	bufSize   = 256 // = 4 * softLimit, the shipped proportion (ListenerLineBufferSize = 4 * InputLogMaxRecordBytes)
)

func rec(n int, tag string) string {
	s := fmt.Sprintf("<13>1 2020-01-02T03:04:05Z host app %d id - %s", n, tag)
	for len(s) < 44 {
		s += "."
	}
	return s
}

type badKind struct {
	name string
	data string // inserted between S1\n and S2\n ; must end with \n unless it is a pure-newline kind
}

func kinds() []badKind {
	long := func(n int, c byte) string { return strings.Repeat(string([]byte{c}), n) + "\n" }
	k := []badKind{
		{"none", ""},
		{"garbage-line", "this is not a syslog record at all, just text\n"},
		{"empty-lines", "\n\n\n"},
		{"binary", "\x00\x01\xff\xfe<13>\x00\n"},
		{"short-head", "<13>1 short\n"},
		{"head-prefix-only", "<13>1 \n"},
		{"lt-only", "<\n"},
		{"nul-run", strings.Repeat("\x00", 40) + "\n"},
		{"cr-lf", "garbage with carriage return\r\n"},
	}
	// over-long lines around every structural size: the soft limit, the free space left after the first record, the
	// buffer, and multiples of it
	for _, n := range []int{softLimit - 1, softLimit, softLimit + 1, bufSize - softLimit - 46, bufSize - softLimit - 45, bufSize - softLimit - 44,
		bufSize - 46, bufSize - 45, bufSize - 44, bufSize - 1, bufSize, bufSize + 1, 2*bufSize - 1, 2 * bufSize, 2*bufSize + 1, 3*bufSize + 7} {
		k = append(k, badKind{fmt.Sprintf("long-line-%d", n), long(n, 'L')})
	}
	// an over-long valid-looking record (a head followed by a huge message)
	for _, n := range []int{bufSize - 50, bufSize, 2*bufSize + 3} {
		k = append(k, badKind{fmt.Sprintf("long-record-%d", n), rec(7, "BIG") + strings.Repeat("M", n) + "\n"})
	}
	return k
}

// run feeds the stream cut at the given offsets; flushMask bit i = a Flush() after fragment i.
func run(stream []byte, cuts []int, flushMask int) (units [][]byte, wedge string) {
	var frags [][]byte
	prev := 0
	for _, c := range cuts {
		frags = append(frags, stream[prev:c])
		prev = c
	}
	frags = append(frags, stream[prev:])
	fi, off := 0, 0
	read := func(p []byte) (int, error) {
		for fi < len(frags) && off == len(frags[fi]) {
			return 0, errFragmentEnd
		}
		if fi >= len(frags) {
			return 0, io.EOF
		}
		n := copy(p, frags[fi][off:])
		off += n
		return n, nil
	}
	consume := func(s []byte) { units = append(units, append([]byte(nil), s...)) }
	r := tcplistener.VerifNewMultiLineReader(read, syslogprotocol.TestRecordStart, bufSize, softLimit, consume)
	steps := 0
	for fi < len(frags) {
		err := r.Read()
		steps++
		if steps > 10*len(stream)+100 {
			return units, "read loop makes no progress"
		}
		if err == errFragmentEnd {
			// end of a TCP segment: the next read would block; a flush tick may fall here
			if flushMask&(1<<uint(fi)) != 0 {
				r.Flush()
			}
			fi++
			off = 0
		}
	}
	r.FlushAll()
	return units, ""
}

var errFragmentEnd = fmt.Errorf("fragment end")

func check(stream []byte, s1, s2, s3 string, cuts []int, flushMask int) (string, string) {
	key, msg := check1(stream, s1, s2, s3, cuts, flushMask)
	if key != "" && key != "wedge" {
		// classify by whether the reader's overflow handling is reachable at all in front of S2: it is when the bytes
		// buffered before S2 is complete (the record in front of it incl. attached bad lines, plus S2 itself) can exceed
		// buffer - softLimit. Everything else is a different root cause.
		inFront := len(stream) - len(s2) - 1 - len(s3) - 1
		if inFront+len(s2) > bufSize-softLimit {
			key += ":after-oversized-input"
		} else {
			key += ":ordinary-input"
		}
	}
	return key, msg
}

func check1(stream []byte, s1, s2, s3 string, cuts []int, flushMask int) (string, string) {
	units, wedge := run(stream, cuts, flushMask)
	if wedge != "" {
		return "wedge", wedge
	}
	count := func(want string, exact bool) (n int) {
		for _, u := range units {
			if exact && string(u) == want {
				n++
			}
			if !exact && bytes.HasPrefix(u, []byte(want)) {
				n++
			}
		}
		return n
	}
	describe := func() string {
		var parts []string
		for _, u := range units {
			x := string(u)
			if len(x) > 70 {
				x = x[:60] + fmt.Sprintf("...(%d bytes)", len(u))
			}
			parts = append(parts, fmt.Sprintf("%q", x))
		}
		return strings.Join(parts, " | ")
	}
	// S1 stands in front of the bad input: it comes out once, beginning with its own bytes (bad lines behind it may be
	// attached as continuation lines — that is the documented multi-line behaviour)
	if n := count(s1, false); n != 1 {
		return "record-before-bad-input", fmt.Sprintf("the record in front of the bad input came out %d times; units: %s", n, describe())
	}
	// S2 and S3 stand behind the bad input: each comes out exactly once and byte-identical
	if n := count(s2, true); n != 1 {
		cls := "record-directly-behind-bad-input-damaged"
		if count(s2, false) == 0 {
			cls = "record-directly-behind-bad-input-lost-or-cut"
		}
		return cls, fmt.Sprintf("the well-formed record directly behind the bad input came out intact %d times; units: %s", n, describe())
	}
	if n := count(s3, true); n != 1 {
		return "second-record-behind-bad-input-damaged", fmt.Sprintf("the second well-formed record behind the bad input came out intact %d times; units: %s", n, describe())
	}
	return "", ""
}

func enumerate(ctx *seq.Ctx) {
	s1, s2, s3 := rec(1, "first"), rec(2, "second"), rec(3, "third")
	for _, k := range kinds() {
		stream := []byte(s1 + "\n" + k.data + s2 + "\n" + s3 + "\n")
		n := len(stream)
		ctx.Group("stream/" + k.name)
		masks := func(nfrag int) []int {
			if ctx.Thorough() {
				m := make([]int, 1<<uint(nfrag))
				for i := range m {
					m[i] = i
				}
				return m
			}
			return []int{0, 1<<uint(nfrag) - 1} // no flush at all / a flush tick after every segment
		}
		emit := func(cuts []int) {
			for _, m := range masks(len(cuts) + 1) {
				if !ctx.Mine() {
					ctx.Skip()
					continue
				}
				cc, mm := append([]int(nil), cuts...), m
				ctx.Case(fmt.Sprintf("%s/cuts%v/flush%d", k.name, cc, mm), k.name != "none", k.name, func() (string, string) {
					return check(stream, s1, s2, s3, cc, mm)
				})
			}
		}
		emit(nil)
		for a := 1; a < n; a++ {
			emit([]int{a})
		}
		// all 2-cut fragmentations (for the long streams: quick takes every cut pair with the first cut in the first 200
		// bytes or within 3 bytes of a structural position; thorough takes all)
		for a := 1; a < n; a++ {
			if ctx.Stop() {
				return
			}
			for b := a + 1; b < n; b++ {
				if !ctx.Thorough() && n > 400 && !(near(a, n, len(s1)+1, len(k.data)) && near(b, n, len(s1)+1, len(k.data))) {
					continue
				}
				emit([]int{a, b})
			}
		}
	}
}

// near reports whether offset x lies within 3 bytes of a structural position of a long stream: its start, the start and
// end of the bad stretch, multiples of the buffer size and of buffer-minus-limit, its end.
func near(x, n, badStart, badLen int) bool {
	pos := []int{0, badStart, badStart + badLen, n, badStart + badLen + 45, badStart + badLen + 90}
	for m := 1; m*bufSize <= n+bufSize; m++ {
		pos = append(pos, m*bufSize, m*(bufSize-softLimit), badStart+m*bufSize, badStart+m*(bufSize-softLimit))
	}
	for _, p := range pos {
		if x >= p-3 && x <= p+3 {
			return true
		}
	}
	return false
}

func main() {
	logger.SetLogLevel(logger.ErrorLevel)
	seq.Main(&seq.Config{
		Property: "C07",
		Level:    "exploration",
		Rule: "stream level: streams S1, BAD, S2, S3 through the real multiLineReader + syslogprotocol.TestRecordStart at scaled sizes (soft limit 64, buffer 256 = the shipped 1:4 proportion); BAD from a menu of 28 kinds " +
			"(garbage, empty lines, binary, partial heads, NUL runs, over-long lines and over-long records at every structural size around limit / free space / buffer / multiples); ALL 1-cut and 2-cut fragmentations " +
			"(streams over 400 bytes in the quick tier: cut pairs near structural positions) x {no flush, flush tick after every segment} (thorough: every flush placement); " +
			"oracle: no wedge/panic, S1 once with its own bytes first, S2 and S3 exactly once and byte-identical; non-trivial = every case with a bad stretch",
		Assumptions: []string{
			"bad lines may be attached to the record in front of them (continuation lines) or rejected; only the records BEHIND the bad input must be exact",
			"flush ticks fall between TCP segments only (all runConnection can do)",
		},
		Enumerate: enumerate,
	})
}
