// Command stopmc model-checks shutdown: the real hybridbuffer with the real baseoutput.ClientWorker as its consumer over
// a scripted upstream; the stop request (Destroy) lands at any scheduling point under every upstream condition.
// Serves C18 (shutdown completes in bounded time and leaves no chunk only in memory).
package main

import (
	"flag"
	"fmt"
	"os"
	"path/filepath"
	"sort"
	"strings"
	"time"

	"github.com/c2h5oh/datasize"
	"github.com/relex/gotils/logger"
	"github.com/relex/gotils/promexporter/promreg"
	"github.com/relex/slog-agent/base"
	"github.com/relex/slog-agent/buffer/hybridbuffer"
	"github.com/relex/slog-agent/defs"
	"github.com/relex/slog-agent/output/baseoutput"

	"slogverif/explore"
	"slogverif/fakeup"
	"slogverif/hutil"
	"slogverif/rt/vsched"
)

type params struct {
	name      string
	memCap    int
	sizes     []int
	ackWindow int
	large     bool // keep the production ratio chunk size / minimum speed: a 700-byte chunk at 1 B/s == 7 MB at 10 KB/s
	advances  int
	delayB    bool // delay bounding instead of preemption bounding
	maxAge    time.Duration
	opt       fakeup.Options
}

type world struct {
	p       params
	root    string
	qdir    string
	data    map[string][]byte
	ids     []string
	viol    []string
	violKey string
	env     *fakeup.Env
}

func (w *world) violate(key, format string, args ...any) {
	msg := fmt.Sprintf(format, args...)
	w.viol = append(w.viol, msg)
	if w.violKey == "" {
		w.violKey = key
	}
	vsched.Note("VIOLATION %s: %s", key, msg)
}

var logs = &hutil.LogCapture{}
var flagLogs = flag.Bool("logs", false, "echo agent logs")

func matchChunkID(id string) bool { return strings.HasSuffix(id, ".ch") }

func (w *world) files() map[string][]byte {
	out := map[string][]byte{}
	ents, err := os.ReadDir(w.qdir)
	if err != nil {
		return out
	}
	for _, e := range ents {
		if e.Name() == ".id" || e.IsDir() {
			continue
		}
		d, _ := os.ReadFile(filepath.Join(w.qdir, e.Name()))
		out[e.Name()] = d
	}
	return out
}

func (w *world) stateHash() uint64 {
	h := w.env.Hash()
	names := []string{}
	for n, d := range w.files() {
		names = append(names, fmt.Sprint(n, len(d)))
	}
	sort.Strings(names)
	for _, s := range names {
		for i := 0; i < len(s); i++ {
			h ^= uint64(s[i])
			h *= 1099511628211
		}
	}
	return h ^ uint64(len(w.viol))
}

func makeRun(p params) explore.RunFunc {
	return func(choose func(*vsched.ChoicePoint) int, trace bool) (explore.Verdict, *vsched.Result) {
		var verdict explore.Verdict
		logs.Reset()
		logs.Echo = *flagLogs
		defs.BufferMaxNumChunksInMemory = p.memCap
		defs.BufferMaxNumChunksInQueue = 50
		defs.ForwarderMaxPendingChunksForAck = p.ackWindow
		if p.large {
			defs.ForwarderBatchSendMinimumSpeed = 1
		} else {
			defs.ForwarderBatchSendMinimumSpeed = 10 * 1024
		}
		w := &world{p: p, data: map[string][]byte{}}
		w.root = hutil.ScratchRoot("stopmc")
		defer os.RemoveAll(w.root)
		opt := p.opt
		w.env = &fakeup.Env{Opt: opt}
		res := vsched.Run(vsched.Options{Choose: choose, Trace: trace, MaxSteps: 50000, StateKeys: true, EnvState: w.stateHash, ForcedSwitchCost: fsc(p.delayB)}, func() {
			verdict = drive(w)
		})
		switch res.Status {
		case "ok":
		case "crash":
			verdict = explore.Verdict{Violation: "panic: " + firstLine(res.Detail), Key: "panic", Outcome: "crash"}
		case "deadlock":
			verdict = explore.Verdict{Violation: "shutdown never completes (deadlock): " + strings.ReplaceAll(res.Detail, "\n", "; "), Key: "deadlock", Outcome: "deadlock"}
		default:
			verdict = explore.Verdict{Violation: res.Status + ": " + res.Detail, Key: "engine:" + res.Status, Outcome: res.Status}
		}
		return verdict, res
	}
}

func fsc(delay bool) int {
	if delay {
		return 1
	}
	return 0
}

func firstLine(s string) string {
	if i := strings.IndexByte(s, '\n'); i >= 0 {
		return s[:i]
	}
	return s
}

func drive(w *world) explore.Verdict {
	p := w.p
	cfg := hybridbuffer.Config{RootPath: filepath.Join(w.root, "buf"), MaxBufSize: datasize.ByteSize(1 << 30)}
	mf := promreg.NewMetricFactory("s_", nil, nil)
	buf := cfg.NewBufferer(logger.Root(), "q1", matchChunkID, mf, false)
	w.qdir = buf.(interface{ QueueDirPath() string }).QueueDirPath()
	buf.Start()
	args := buf.RegisterNewConsumer()
	consumed := map[string]int{}
	inner := args.OnChunkConsumed
	args.OnChunkConsumed = func(c base.LogChunk) {
		consumed[c.ID]++
		if !w.env.AckedAndSent(c.ID) {
			w.violate("consumed-without-ack", "chunk %s confirmed without an ACK on a connection that transmitted it", c.ID)
		}
		inner(c)
	}
	client := baseoutput.NewClientWorker(logger.Root(), args, mf.AddOrGetPrefix("out_", nil, nil), w.env.Open, p.maxAge)
	client.Start()

	for i, sz := range p.sizes {
		vsched.Lazy("driver.accept")
		id := fmt.Sprintf("%04d.ch", i+1)
		d := make([]byte, sz)
		for j := range d {
			d[j] = byte('a' + (i+j)%26)
		}
		w.data[id] = d
		w.ids = append(w.ids, id)
		vsched.Note("accept %s size=%d", id, sz)
		buf.Accept(base.LogChunk{ID: id, Data: append([]byte(nil), d...)})
	}
	quiet := vsched.Lazy("driver.stop")
	for adv := 0; quiet && adv < p.advances && vsched.NextTimerIn() >= 0; adv++ {
		if vsched.Choose(2, "advance-before-stop") == 0 {
			break
		}
		vsched.AdvanceClock()
		quiet = vsched.Lazy("driver.stop")
	}
	vsched.Note("stop requested (Destroy)")
	t0 := vsched.Elapsed()
	buf.Destroy()
	took := vsched.Elapsed() - t0
	// the state of the queue directory and of the confirmations is taken at the very moment Destroy returns (the agent
	// process exits next); whatever goroutines still do afterwards does not count
	files := w.files()
	consumedAtReturn := map[string]int{}
	for k, v := range consumed {
		consumedAtReturn[k] = v
	}
	vsched.Note("Destroy returned after %v", took)

	// ---- verdict: this is the moment the agent process would exit
	bound := defs.BufferShutDownTimeout + defs.IntermediateChannelTimeout
	outcome := []string{fmt.Sprintf("took<=%v", took.Round(30*time.Second))}
	if took > bound {
		w.violate("stop-too-slow", "shutdown took %v of virtual time, bound %v", took, bound)
	}
	feederStopped := buf.Stopped().Peek()
	// the output client signals Stopped right after telling the buffer it has finished: give it the chance to run
	// (no virtual time passes) before asking whether it is still busy
	vsched.Idle()
	clientStopped := client.Stopped().Peek()
	if !feederStopped || !clientStopped {
		w.violate("shutdown-gave-up", "Destroy returned after %v while the feeder (stopped=%v) or the output client (stopped=%v) was still running", took, feederStopped, clientStopped)
	}
	m := hutil.Metrics(mf)
	dropped := int(hutil.Sum(m, "s_dropped_chunks_total"))
	if after := w.files(); len(after) != len(files) {
		w.violate("files-change-after-shutdown-returned", "%d chunk files when Destroy returned, %d once every goroutine had come to rest: chunks are still being saved or removed after the shutdown was reported complete", len(files), len(after))
	}
	missing := 0
	for _, id := range w.ids {
		f, onDisk := files[id]
		switch {
		case consumedAtReturn[id] > 0:
			outcome = append(outcome, id[:4]+":acked")
			if onDisk {
				w.violate("confirmed-file-remains", "chunk %s was confirmed but its file is still there", id)
			}
		case onDisk:
			outcome = append(outcome, id[:4]+":disk")
			if string(f) != string(w.data[id]) {
				w.violate("file-altered", "file of chunk %s differs from what was accepted (%d vs %d bytes)", id, len(f), len(w.data[id]))
			}
		default:
			missing++
			outcome = append(outcome, id[:4]+":MEMORY-ONLY")
		}
	}
	if dropped > 0 {
		// the queue directory is usable and its size limit ample in every scenario: nothing justifies a drop
		w.violate("chunk-dropped-at-shutdown", "dropped_chunks_total=%d although a queue directory with room is available", dropped)
	}
	if missing > dropped {
		w.violate("chunk-only-in-memory", "%d chunk(s) are neither acknowledged nor on disk when shutdown returns (dropped_chunks_total=%d): they exist only in memory and die with the process", missing, dropped)
	}
	if line := logs.FirstBugLine(); line != "" {
		i := strings.Index(line, "BUG")
		w.violate("bug-log:"+hutil.KeyFrom(line[i:], 40), "agent logged: %s", line)
	}
	v := explore.Verdict{Outcome: strings.Join(outcome, " ")}
	if len(w.viol) > 0 {
		v.Violation = strings.Join(w.viol, " | ")
		v.Key = w.violKey
	}
	return v
}

func scenarios() []*explore.Scenario {
	var out []*explore.Scenario
	add := func(p params, quick, thorough int) {
		// quick: delay bounding (every departure from the default schedule costs 1); thorough adds preemption bounding
		d := p
		d.delayB = true
		d.name = p.name + "/delay"
		out = append(out, &explore.Scenario{Name: d.name, Bound: map[string]int{"quick": quick, "thorough": thorough + 1}, Run: makeRun(d), MinOutcomes: 2})
		out = append(out, &explore.Scenario{Name: p.name + "/preempt", Bound: map[string]int{"thorough": thorough - 1}, Run: makeRun(p), MinOutcomes: 2})
	}
	full := fakeup.Options{ConnectAlt: 3, SendAlt: 3, PingAlt: 2, AckAlt: 4, LateDelay: 25 * time.Second}
	for _, mem := range []int{0, 2} {
		for _, large := range []bool{false, true} {
			sz := []int{40, 40}
			tag := "small"
			if large {
				sz = []int{700, 40}
				tag = "large"
			}
			p := params{memCap: mem, sizes: sz, ackWindow: 1, large: large, advances: 1, maxAge: 5 * time.Minute, opt: full}
			p.name = fmt.Sprintf("stop/mem%d/%s/n2", mem, tag)
			add(p, 2, 3)
		}
	}
	p := params{memCap: 2, sizes: []int{40, 700, 40}, ackWindow: 2, large: true, advances: 1, maxAge: 5 * time.Minute, opt: full}
	p.name = "stop/mem2/large/n3/w2"
	add(p, 1, 2)
	// start from "the first session failed after sending, leftovers are resent on a new connection"
	r := params{memCap: 2, sizes: []int{700}, ackWindow: 1, large: true, advances: 2, maxAge: 5 * time.Minute, opt: full}
	r.opt.FirstAckReset = true
	r.name = "stop/resend/large/n1"
	add(r, 3, 3)
	r2 := r
	r2.sizes = []int{700, 40}
	r2.name = "stop/resend/large/n2"
	add(r2, 2, 3)
	return out
}

func main() {
	logger.SetLogLevel(logger.InfoLevel)
	logger.SetOutput(logs)
	explore.Main(&explore.Config{
		Property:  "C18",
		Level:     "model_checking",
		Scenarios: scenarios(),
		Rule: "stateless DFS over schedules of the real hybridbuffer + real ClientWorker (sender, acknowledger, opener, stop aborter, feeder) with a scripted upstream; the stop request (Destroy) is an " +
			"environment event enabled at every scheduling point; upstream answers (refuse, hang, reset, block mid-write, silent, late ACK) are explorer choices; loads: idle, chunk in flight, pending ACKs, retry wait; " +
			"small chunks and the large-chunk class (send deadline longer than the buffer's shutdown wait, production ratio kept); distinct_nontrivial = distinct (duration class, per-chunk fate) outcomes",
		Assumptions: []string{
			"A-time: safety-net timers fire only when the awaited party is really stuck",
			"bound B = BufferShutDownTimeout + IntermediateChannelTimeout, the wait Destroy itself documents; the moment Destroy returns is the moment the process would exit",
			"large-chunk class modelled by scaling ForwarderBatchSendMinimumSpeed to 1 B/s with a 700-byte chunk (7 MB at 10 KB/s)",
		},
	})
}
