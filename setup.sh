#!/bin/bash
# Builds the framework from files on disk only (offline) and warms the Go build cache.
set -e
cd "$(dirname "$0")"
export GOFLAGS=-mod=mod GOPROXY=off GOSUMDB=off GOTOOLCHAIN=local GODEBUG=goindex=0
mkdir -p bin evidence replays
go build -o bin/instr ./instr
S=$(mktemp -d "${TMPDIR:-/tmp}/verif-setup.XXXXXX")
trap 'rm -rf "$S"' EXIT
bin/instr -out "$S/ins" -extra "/repo/buffer/hybridbuffer/zz_verif_export.go=$PWD/hooks/hybridbuffer_export.go,/repo/output/fluentdforward/zz_verif_export.go=$PWD/hooks/fluentdforward_limits_export.go,/repo/base/bconfig/zz_verif_export.go=$PWD/hooks/bconfig_export.go,/repo/input/tcplistener/zz_verif_export2.go=$PWD/hooks/tcplistener_receiver_export.go,/repo/input/sysloginput/zz_verif_export.go=$PWD/hooks/sysloginput_export.go" \
  -vfs "github.com/relex/slog-agent/util,github.com/relex/slog-agent/buffer/hybridbuffer"
# every harness registered in ./check is compiled once (model-checking harnesses against the instrumented tree)
for h in $(grep -o 'build_mc [a-z_0-9]*' check | awk '{print $2}' | sort -u); do
  echo "build $h"
  go build -overlay "$S/ins/overlay.json" -o "$S/h" "./harness/$h"
done
# the statement-granularity build of the composed harness (parts of C06, C12, C19)
M=github.com/relex/slog-agent
eval "$(grep '^FINE_PKGS=' check)"
bin/instr -out "$S/insf" -fine "$FINE_PKGS" -extra "/repo/output/fluentdforward/zz_verif_export.go=$PWD/hooks/fluentdforward_limits_export.go,/repo/base/bconfig/zz_verif_export.go=$PWD/hooks/bconfig_export.go,/repo/input/tcplistener/zz_verif_export2.go=$PWD/hooks/tcplistener_receiver_export.go,/repo/input/sysloginput/zz_verif_export.go=$PWD/hooks/sysloginput_export.go" > /dev/null
echo "build agentmc (statement granularity)"
go build -overlay "$S/insf/overlay.json" -o "$S/h" ./harness/agentmc
for h in $(grep -o 'build_seq [a-z_0-9]*' check | awk '{print $2}' | sort -u); do
  go build -o "$S/h" "./harness/$h" 2>/dev/null || true   # some need a per-harness overlay; ./check builds them
done
echo setup ok
