#!/bin/bash
# Builds the framework from files on disk only (offline) and warms the Go build cache.
set -e
cd "$(dirname "$0")"
export GOFLAGS=-mod=mod GOPROXY=off GOSUMDB=off GOTOOLCHAIN=local GODEBUG=goindex=0
mkdir -p bin evidence replays
go build -o bin/instr ./instr
S=$(mktemp -d "${TMPDIR:-/tmp}/verif-setup.XXXXXX")
trap 'rm -rf "$S"' EXIT
bin/instr -out "$S/ins"
for h in harness/*/; do
  h=${h%/}
  go build -overlay "$S/ins/overlay.json" -o "$S/h" "./$h"
done
echo setup ok
