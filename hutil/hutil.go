// Package hutil holds small helpers shared by the harnesses: metric snapshots, log capture, scratch dirs.
package hutil

import (
	"bytes"
	"fmt"
	"os"
	"sort"
	"strings"
	"sync"

	"github.com/prometheus/client_golang/prometheus"
	dto "github.com/prometheus/client_model/go"
)

// Metrics gathers all metrics of g into a map keyed by `name{label="value",...}` (labels sorted).
func Metrics(g prometheus.Gatherer) map[string]float64 {
	out := map[string]float64{}
	fams, err := g.Gather()
	if err != nil {
		out["__gather_error__"] = 1
	}
	for _, f := range fams {
		for _, m := range f.Metric {
			out[f.GetName()+labelString(m.Label)] = metricValue(m)
		}
	}
	return out
}

func metricValue(m *dto.Metric) float64 {
	switch {
	case m.Counter != nil:
		return m.Counter.GetValue()
	case m.Gauge != nil:
		return m.Gauge.GetValue()
	case m.Untyped != nil:
		return m.Untyped.GetValue()
	}
	return 0
}

func labelString(ls []*dto.LabelPair) string {
	if len(ls) == 0 {
		return ""
	}
	parts := make([]string, 0, len(ls))
	for _, l := range ls {
		parts = append(parts, fmt.Sprintf("%s=%q", l.GetName(), l.GetValue()))
	}
	sort.Strings(parts)
	return "{" + strings.Join(parts, ",") + "}"
}

// Sum adds up all series of a metric family whose key contains every given fragment.
func Sum(m map[string]float64, name string, fragments ...string) float64 {
	total := 0.0
	for k, v := range m {
		base := k
		if i := strings.IndexByte(k, '{'); i >= 0 {
			base = k[:i]
		}
		if base != name {
			continue
		}
		ok := true
		for _, f := range fragments {
			if !strings.Contains(k, f) {
				ok = false
			}
		}
		if ok {
			total += v
		}
	}
	return total
}

// LogCapture is an io.Writer for logger.SetOutput that keeps lines containing BUG / panic / fatal.
type LogCapture struct {
	mu   sync.Mutex
	Buf  bytes.Buffer
	Echo bool
	All  bool
}

func (l *LogCapture) Write(p []byte) (int, error) {
	l.mu.Lock()
	defer l.mu.Unlock()
	if l.All || bytes.Contains(p, []byte("BUG")) || bytes.Contains(p, []byte("level=panic")) || bytes.Contains(p, []byte("level=fatal")) {
		l.Buf.Write(p)
	}
	if l.Echo {
		os.Stderr.Write(p)
	}
	return len(p), nil
}

func (l *LogCapture) Reset() {
	l.mu.Lock()
	l.Buf.Reset()
	l.mu.Unlock()
}

func (l *LogCapture) String() string {
	l.mu.Lock()
	defer l.mu.Unlock()
	return l.Buf.String()
}

// FirstBugLine returns the first captured line containing "BUG", or "".
func (l *LogCapture) FirstBugLine() string {
	for _, line := range strings.Split(l.String(), "\n") {
		if strings.Contains(line, "BUG") {
			return line
		}
	}
	return ""
}

// ScratchRoot returns a directory for per-execution scratch data (tmpfs when available); the caller removes it.
func ScratchRoot(prefix string) string {
	base := os.Getenv("VERIF_SCRATCH")
	if base == "" {
		if st, err := os.Stat("/dev/shm"); err == nil && st.IsDir() {
			base = "/dev/shm"
		} else {
			base = os.TempDir()
		}
	}
	dir, err := os.MkdirTemp(base, prefix)
	if err != nil {
		panic(err)
	}
	return dir
}

// KeyFrom shortens and sanitises text for use in a violation key.
func KeyFrom(s string, max int) string {
	if len(s) > max {
		s = s[:max]
	}
	return strings.Map(func(r rune) rune {
		if r == ' ' || r == '"' || r == '\n' || r == '\t' {
			return '_'
		}
		return r
	}, s)
}
